// Package seams wraps the interfaces the engine already offers (IDataContext, ValueNode,
// GruleEngineListener) so that every call through them is a numbered simulator event at which
// faults, cancellation, yields and simulated time can be applied.
package seams

import (
	"context"
	"fmt"
	"reflect"
	"sort"
	"strings"

	"github.com/hyperjumptech/grule-rule-engine/ast"
	"github.com/hyperjumptech/grule-rule-engine/model"
)

// FaultKind says what a seam must do instead of (or before) the real operation.
type FaultKind int

const (
	NoFault FaultKind = iota
	FaultErr          // return an error value
	FaultPanic        // panic
	FaultNil          // Get returns nil (fact missing)
)

// InjectedErr is the error value returned by FaultErr.
type InjectedErr struct{ Seq int }

func (e *InjectedErr) Error() string { return fmt.Sprintf("simulated fault at event %d", e.Seq) }

// InjectedPanic is the value panicked with by FaultPanic.
type InjectedPanic struct{ Seq int }

func (p *InjectedPanic) String() string { return fmt.Sprintf("simulated panic at event %d", p.Seq) }

// Event is one numbered seam event.
type Event struct {
	Seq    int
	Kind   string // get add complete iscomplete setrule field index key call setfield setindex setkey begin eval exec visit method
	Path   string // data path or rule name
	Detail string
	Write  bool // the event changes fact data or control state
}

func (e Event) String() string {
	return fmt.Sprintf("%d %s %s %s", e.Seq, e.Kind, e.Path, e.Detail)
}

// Sink receives every event before the real operation runs and decides about faults.
type Sink interface {
	// Step is called with the event (Seq not yet assigned); it returns the fault to apply.
	Step(ev *Event) FaultKind
}

// ---------------------------------------------------------------------------------------------
// Data context

// DataContext wraps a real ast.IDataContext.
type DataContext struct {
	Inner ast.IDataContext
	Sink  Sink
	// wrappers preserves object identity: the real data context hands out the SAME node object for a
	// key until the key is added again, and so must the wrapper (code may legitimately compare nodes)
	wrappers map[model.ValueNode]*ValueNode
}

var _ ast.IDataContext = (*DataContext)(nil)

func (d *DataContext) ResetVariableChangeCount()     { d.Inner.ResetVariableChangeCount() }
func (d *DataContext) IncrementVariableChangeCount() { d.Inner.IncrementVariableChangeCount() }
func (d *DataContext) HasVariableChange() bool       { return d.Inner.HasVariableChange() }

func (d *DataContext) Add(key string, obj interface{}) error {
	ev := &Event{Kind: "add", Path: key, Write: key != "DEFUNC"}
	if key != "DEFUNC" {
		ev.Detail = show(reflect.ValueOf(obj))
	}
	switch d.Sink.Step(ev) {
	case FaultErr:
		return &InjectedErr{ev.Seq}
	case FaultPanic:
		panic(&InjectedPanic{ev.Seq})
	}
	return d.Inner.Add(key, obj)
}

func (d *DataContext) AddJSON(key string, JSON []byte) error { return d.Inner.AddJSON(key, JSON) }

func (d *DataContext) Get(key string) model.ValueNode {
	ev := &Event{Kind: "get", Path: key}
	switch d.Sink.Step(ev) {
	case FaultNil, FaultErr:
		return nil
	case FaultPanic:
		panic(&InjectedPanic{ev.Seq})
	}
	n := d.Inner.Get(key)
	if n == nil {
		return nil
	}
	if w, ok := d.wrappers[n]; ok {
		return w
	}
	if d.wrappers == nil {
		d.wrappers = map[model.ValueNode]*ValueNode{}
	}
	w := &ValueNode{Inner: n, Sink: d.Sink, Path: key}
	d.wrappers[n] = w
	return w
}

func (d *DataContext) GetKeys() []string         { return d.Inner.GetKeys() }
func (d *DataContext) Retract(key string)        { d.Inner.Retract(key) }
func (d *DataContext) IsRetracted(k string) bool { return d.Inner.IsRetracted(k) }
func (d *DataContext) Retracted() []string       { return d.Inner.Retracted() }
func (d *DataContext) Reset()                    { d.Inner.Reset() }

func (d *DataContext) Complete() {
	d.Sink.Step(&Event{Kind: "complete"})
	d.Inner.Complete()
}

func (d *DataContext) IsComplete() bool {
	d.Sink.Step(&Event{Kind: "iscomplete"})
	return d.Inner.IsComplete()
}

func (d *DataContext) SetRuleEntry(re *ast.RuleEntry) {
	name := ""
	if re != nil {
		name = re.RuleName
	}
	d.Sink.Step(&Event{Kind: "setrule", Path: name})
	d.Inner.SetRuleEntry(re)
}

func (d *DataContext) GetRuleEntry() *ast.RuleEntry { return d.Inner.GetRuleEntry() }

// ---------------------------------------------------------------------------------------------
// Value node

// ValueNode wraps a real model.ValueNode (Go or JSON backed) and every child it hands out.
type ValueNode struct {
	Inner model.ValueNode
	Sink  Sink
	Path  string
	up    *ValueNode // the wrapper this node was obtained from (identity of Parent() is preserved)
}

var _ model.ValueNode = (*ValueNode)(nil)

func (n *ValueNode) wrap(c model.ValueNode, path string) model.ValueNode {
	if c == nil {
		return nil
	}
	return &ValueNode{Inner: c, Sink: n.Sink, Path: path, up: n}
}

func (n *ValueNode) IdentifiedAs() string  { return n.Inner.IdentifiedAs() }
func (n *ValueNode) Value() reflect.Value  { return n.Inner.Value() }
func (n *ValueNode) HasParent() bool       { return n.Inner.HasParent() }
func (n *ValueNode) Parent() model.ValueNode {
	p := n.Inner.Parent()
	if p == nil {
		return nil
	}
	if n.up != nil && n.up.Inner == p {
		return n.up
	}
	pp := n.Path
	if i := strings.LastIndexAny(pp, ".["); i > 0 {
		pp = pp[:i]
	}
	return n.wrap(p, pp)
}
func (n *ValueNode) ContinueWithValue(v reflect.Value, id string) model.ValueNode {
	return n.wrap(n.Inner.ContinueWithValue(v, id), n.Path+"."+id+"()")
}
func (n *ValueNode) GetValue() (reflect.Value, error)    { return n.Inner.GetValue() }
func (n *ValueNode) GetType() (reflect.Type, error)      { return n.Inner.GetType() }
func (n *ValueNode) IsArray() bool                       { return n.Inner.IsArray() }
func (n *ValueNode) GetArrayType() (reflect.Type, error) { return n.Inner.GetArrayType() }
func (n *ValueNode) GetArrayValueAt(i int) (reflect.Value, error) {
	return n.Inner.GetArrayValueAt(i)
}
func (n *ValueNode) AppendValue(v []reflect.Value) error { return n.Inner.AppendValue(v) }
func (n *ValueNode) Length() (int, error)                { return n.Inner.Length() }
func (n *ValueNode) IsMap() bool                         { return n.Inner.IsMap() }
func (n *ValueNode) GetMapValueAt(i reflect.Value) (reflect.Value, error) {
	return n.Inner.GetMapValueAt(i)
}
func (n *ValueNode) IsInterface() bool { return n.Inner.IsInterface() }
func (n *ValueNode) IsObject() bool    { return n.Inner.IsObject() }
func (n *ValueNode) GetObjectValueByField(f string) (reflect.Value, error) {
	return n.Inner.GetObjectValueByField(f)
}
func (n *ValueNode) GetObjectTypeByField(f string) (reflect.Type, error) {
	return n.Inner.GetObjectTypeByField(f)
}
func (n *ValueNode) IsTime() bool    { return n.Inner.IsTime() }
func (n *ValueNode) IsInteger() bool { return n.Inner.IsInteger() }
func (n *ValueNode) IsReal() bool    { return n.Inner.IsReal() }
func (n *ValueNode) IsBool() bool    { return n.Inner.IsBool() }
func (n *ValueNode) IsString() bool  { return n.Inner.IsString() }

// show renders a value for the event log. It never prints an address: the log of a run must be
// a pure function of the scenario.
func show(v reflect.Value) string {
	var b strings.Builder
	render(&b, v, 0)
	return b.String()
}

func render(b *strings.Builder, v reflect.Value, depth int) {
	if !v.IsValid() {
		b.WriteString("<invalid>")
		return
	}
	if depth > 6 {
		b.WriteString("...")
		return
	}
	switch v.Kind() {
	case reflect.Ptr, reflect.Interface:
		if v.IsNil() {
			b.WriteString(v.Type().String() + "(nil)")
			return
		}
		if v.Kind() == reflect.Ptr {
			b.WriteString("&")
		}
		render(b, v.Elem(), depth+1)
	case reflect.Struct:
		if v.Type().String() == "time.Time" && v.CanInterface() {
			fmt.Fprintf(b, "time(%v)", v.Interface())
			return
		}
		b.WriteString(v.Type().String() + "{")
		for i := 0; i < v.NumField(); i++ {
			if v.Type().Field(i).PkgPath != "" {
				continue
			}
			if i > 0 {
				b.WriteString(" ")
			}
			render(b, v.Field(i), depth+1)
		}
		b.WriteString("}")
	case reflect.Slice, reflect.Array:
		b.WriteString("[")
		for i := 0; i < v.Len(); i++ {
			if i > 0 {
				b.WriteString(" ")
			}
			render(b, v.Index(i), depth+1)
		}
		b.WriteString("]")
	case reflect.Map:
		keys := v.MapKeys()
		strs := make([]string, len(keys))
		for i, k := range keys {
			var kb, vb strings.Builder
			render(&kb, k, depth+1)
			render(&vb, v.MapIndex(k), depth+1)
			strs[i] = kb.String() + ":" + vb.String()
		}
		sort.Strings(strs)
		b.WriteString("map[" + strings.Join(strs, " ") + "]")
	case reflect.Func, reflect.Chan, reflect.UnsafePointer:
		b.WriteString(v.Type().String())
	default:
		if v.CanInterface() {
			fmt.Fprintf(b, "%s(%v)", v.Type(), v.Interface())
		} else {
			b.WriteString(v.Type().String())
		}
	}
}

func (n *ValueNode) fault(ev *Event) error {
	switch n.Sink.Step(ev) {
	case FaultErr, FaultNil:
		return &InjectedErr{ev.Seq}
	case FaultPanic:
		panic(&InjectedPanic{ev.Seq})
	}
	return nil
}

func (n *ValueNode) GetChildNodeByField(field string) (model.ValueNode, error) {
	p := n.Path + "." + field
	if err := n.fault(&Event{Kind: "field", Path: p}); err != nil {
		return nil, err
	}
	c, err := n.Inner.GetChildNodeByField(field)
	if err != nil {
		return nil, err
	}
	return n.wrap(c, p), nil
}

func (n *ValueNode) GetChildNodeByIndex(index int) (model.ValueNode, error) {
	p := fmt.Sprintf("%s[%d]", n.Path, index)
	if err := n.fault(&Event{Kind: "index", Path: p}); err != nil {
		return nil, err
	}
	c, err := n.Inner.GetChildNodeByIndex(index)
	if err != nil {
		return nil, err
	}
	return n.wrap(c, p), nil
}

func (n *ValueNode) GetChildNodeBySelector(index reflect.Value) (model.ValueNode, error) {
	p := fmt.Sprintf("%s[%s]", n.Path, show(index))
	if err := n.fault(&Event{Kind: "key", Path: p}); err != nil {
		return nil, err
	}
	c, err := n.Inner.GetChildNodeBySelector(index)
	if err != nil {
		return nil, err
	}
	return n.wrap(c, p), nil
}

// ControlFns are the built-ins whose call changes control state.
var ControlFns = map[string]bool{"Retract": true, "Complete": true, "Forget": true, "Changed": true}

// MutatorFns are harness fact methods that change fact data.
var MutatorFns = map[string]bool{"SetI": true, "Bump": true, "SetS": true}

func (n *ValueNode) CallFunction(funcName string, args ...reflect.Value) (reflect.Value, error) {
	parts := make([]string, len(args))
	for i, a := range args {
		parts[i] = show(a)
	}
	ev := &Event{Kind: "call", Path: n.Path + "." + funcName, Detail: strings.Join(parts, ",")}
	if n.Path == "DEFUNC" {
		ev.Write = ControlFns[funcName]
	} else {
		ev.Write = MutatorFns[funcName]
	}
	if err := n.fault(ev); err != nil {
		return reflect.Value{}, err
	}
	return n.Inner.CallFunction(funcName, args...)
}

func (n *ValueNode) SetObjectValueByField(field string, nv reflect.Value) error {
	if err := n.fault(&Event{Kind: "setfield", Path: n.Path + "." + field, Detail: show(nv), Write: true}); err != nil {
		return err
	}
	return n.Inner.SetObjectValueByField(field, nv)
}

func (n *ValueNode) SetArrayValueAt(index int, nv reflect.Value) error {
	if err := n.fault(&Event{Kind: "setindex", Path: fmt.Sprintf("%s[%d]", n.Path, index), Detail: show(nv), Write: true}); err != nil {
		return err
	}
	return n.Inner.SetArrayValueAt(index, nv)
}

func (n *ValueNode) SetMapValueAt(index, nv reflect.Value) error {
	if err := n.fault(&Event{Kind: "setkey", Path: fmt.Sprintf("%s[%s]", n.Path, show(index)), Detail: show(nv), Write: true}); err != nil {
		return err
	}
	return n.Inner.SetMapValueAt(index, nv)
}

// ---------------------------------------------------------------------------------------------
// Listener

// ListenerSink receives listener callbacks of one registered listener.
type ListenerSink interface {
	OnBegin(id int, cycle uint64)
	OnEval(id int, cycle uint64, rule *ast.RuleEntry, candidate bool)
	OnExec(id int, cycle uint64, rule *ast.RuleEntry)
}

// Listener implements engine.GruleEngineListener.
type Listener struct {
	ID   int
	Sink ListenerSink
}

func (l *Listener) BeginCycle(_ context.Context, cycle uint64) { l.Sink.OnBegin(l.ID, cycle) }
func (l *Listener) EvaluateRuleEntry(_ context.Context, cycle uint64, entry *ast.RuleEntry, candidate bool) {
	l.Sink.OnEval(l.ID, cycle, entry, candidate)
}
func (l *Listener) ExecuteRuleEntry(_ context.Context, cycle uint64, entry *ast.RuleEntry) {
	l.Sink.OnExec(l.ID, cycle, entry)
}
