package grl

import (
	"regexp"
	"errors"
	"fmt"
	"math"
	"reflect"
	"strings"
	"time"
)

// The reference model: a memory-free interpreter of the documented GRL core over a State.
// Every evaluation starts from the current fact values; nothing is remembered.

// ErrModel marks an evaluation failure (nil path, out of range, missing key, kind mismatch, % 0 ...).
var ErrModel = errors.New("model: evaluation error")

func merr(format string, a ...interface{}) error {
	return fmt.Errorf("%w: %s", ErrModel, fmt.Sprintf(format, a...))
}

type family int

const (
	famInt family = iota
	famUint
	famFloat
	famString
	famBool
	famTime
	famOther
)

func famOf(v interface{}) family {
	if v == nil {
		return famOther
	}
	switch reflect.TypeOf(v).Kind() {
	case reflect.Int, reflect.Int8, reflect.Int16, reflect.Int32, reflect.Int64:
		return famInt
	case reflect.Uint, reflect.Uint8, reflect.Uint16, reflect.Uint32, reflect.Uint64:
		return famUint
	case reflect.Float32, reflect.Float64:
		return famFloat
	case reflect.String:
		return famString
	case reflect.Bool:
		return famBool
	}
	if _, ok := v.(time.Time); ok {
		return famTime
	}
	return famOther
}

func asI(v interface{}) int64   { return reflect.ValueOf(v).Int() }
func asU(v interface{}) uint64  { return reflect.ValueOf(v).Uint() }
func asF(v interface{}) float64 { return reflect.ValueOf(v).Float() }

func isNum(f family) bool { return f == famInt || f == famUint || f == famFloat }

// toF converts any number to float64.
func toF(v interface{}) float64 {
	switch famOf(v) {
	case famInt:
		return float64(asI(v))
	case famUint:
		return float64(asU(v))
	default:
		return asF(v)
	}
}

// toI converts an int or uint family value to int64 (the engine's mixed int/uint rule).
func toI(v interface{}) int64 {
	if famOf(v) == famUint {
		return int64(asU(v))
	}
	return asI(v)
}

// Model is the reference interpreter state.
type Model struct {
	S State
	// Env is set when a value left the envelope the generator intends (a string longer than
	// MaxStr); the run is then discarded by the simulator instead of being judged.
	Env bool
}

// MaxStr bounds the length of strings the model is willing to build.
const MaxStr = 4096

// resolve walks a path and returns the addressed reflect.Value. For Go facts the value is
// addressable (so it can be assigned); for JSON and map members `holder`/`key` describe the slot.
type slot struct {
	val    reflect.Value // current value (zero Value if a map/JSON member does not exist and lenient)
	set    func(nv interface{}) error
	exists bool
}

func (m *Model) root(name string) (interface{}, error) {
	v, ok := m.S[name]
	if !ok {
		return nil, merr("non existent key %s", name)
	}
	return v, nil
}

// EvalPath evaluates a path to its value.
func (m *Model) EvalPath(p *Path) (interface{}, error) {
	cur, err := m.root(p.Root)
	if err != nil {
		return nil, err
	}
	for i := range p.Steps {
		cur, err = m.step(cur, &p.Steps[i])
		if err != nil {
			return nil, err
		}
	}
	return cur, nil
}

func deref(v reflect.Value) (reflect.Value, error) {
	for v.Kind() == reflect.Interface {
		if v.IsNil() {
			return v, merr("nil interface")
		}
		v = v.Elem()
	}
	return v, nil
}

func (m *Model) step(cur interface{}, st *Step) (interface{}, error) {
	rv := reflect.ValueOf(cur)
	if !rv.IsValid() {
		return nil, merr("step on nil value")
	}
	if st.Sel == nil {
		switch rv.Kind() {
		case reflect.Ptr:
			if rv.IsNil() {
				return nil, merr("nil pointer on the way to .%s", st.Field)
			}
			if rv.Elem().Kind() != reflect.Struct {
				return nil, merr("not an object")
			}
			f := rv.Elem().FieldByName(st.Field)
			if !f.IsValid() {
				return nil, merr("no field %s", st.Field)
			}
			if f.Kind() == reflect.Ptr && isNumKind(f.Type().Elem().Kind()) {
				if f.IsNil() {
					return nil, merr("nil pointer to number %s", st.Field)
				}
				return f.Elem().Interface(), nil // the engine looks through a pointer to a number
			}
			return f.Interface(), nil
		case reflect.Map: // JSON object
			if rv.Type().Key().Kind() != reflect.String || rv.Type().Elem().Kind() != reflect.Interface {
				return nil, merr("field access on a Go map")
			}
			mv := rv.MapIndex(reflect.ValueOf(st.Field))
			if !mv.IsValid() {
				return nil, merr("json field %s undefined", st.Field)
			}
			if mv.IsNil() {
				return nil, merr("json null")
			}
			return mv.Elem().Interface(), nil
		}
		return nil, merr("field access .%s on %s", st.Field, rv.Kind())
	}
	sel, err := m.Eval(st.Sel)
	if err != nil {
		return nil, err
	}
	switch rv.Kind() {
	case reflect.Slice, reflect.Array:
		if famOf(sel) != famInt {
			return nil, merr("array selector must be a signed integer")
		}
		idx := int(asI(sel))
		if idx < 0 || idx >= rv.Len() {
			return nil, merr("index %d out of range", idx)
		}
		ev := rv.Index(idx)
		if ev.Kind() == reflect.Interface { // JSON array
			if ev.IsNil() {
				return nil, merr("json null")
			}
			return ev.Elem().Interface(), nil
		}
		return ev.Interface(), nil
	case reflect.Map:
		if reflect.TypeOf(sel) != rv.Type().Key() {
			return nil, merr("map selector kind mismatch")
		}
		mv := rv.MapIndex(reflect.ValueOf(sel))
		if !mv.IsValid() {
			return nil, merr("missing key %v", sel)
		}
		if mv.Kind() == reflect.Interface {
			if mv.IsNil() {
				return nil, merr("json null")
			}
			return mv.Elem().Interface(), nil
		}
		return mv.Interface(), nil
	}
	return nil, merr("selector on %s", rv.Kind())
}

// Eval evaluates an expression on the current state.
func (m *Model) Eval(e *Expr) (interface{}, error) {
	if e.Raw != "" {
		return nil, fmt.Errorf("model: raw expression %q is not interpretable", e.Raw)
	}
	switch e.K {
	case "lit":
		switch e.LitK {
		case "int":
			return e.I, nil
		case "float":
			return e.F, nil
		case "string":
			return e.S, nil
		case "bool":
			return e.B, nil
		}
	case "path":
		return m.EvalPath(e.Path)
	case "not":
		v, err := m.Eval(e.L)
		if err != nil {
			return nil, err
		}
		b, ok := v.(bool)
		if !ok {
			return nil, merr("negation of non-boolean")
		}
		return !b, nil
	case "bin":
		return m.evalBin(e)
	case "call":
		return m.evalCall(e, false)
	case "vfn":
		return m.evalVfn(e)
	case "bfn":
		return m.evalBfn(e)
	}
	return nil, fmt.Errorf("model: unknown expression kind %q", e.K)
}

func (m *Model) evalBin(e *Expr) (interface{}, error) {
	switch e.Op {
	case "&&", "||":
		l, err := m.Eval(e.L)
		if err != nil {
			return nil, err
		}
		lb, ok := l.(bool)
		if !ok {
			return nil, merr("logical operator on non-boolean")
		}
		if e.Op == "&&" && !lb {
			return false, nil
		}
		if e.Op == "||" && lb {
			return true, nil
		}
		r, err := m.Eval(e.R)
		if err != nil {
			return nil, err
		}
		rb, ok := r.(bool)
		if !ok {
			return nil, merr("logical operator on non-boolean")
		}
		return rb, nil
	}
	l, lerr := m.Eval(e.L)
	r, rerr := m.Eval(e.R)
	if lerr != nil {
		return nil, lerr
	}
	if rerr != nil {
		return nil, rerr
	}
	return m.guard(BinOp(e.Op, l, r))
}

func (m *Model) guard(v interface{}, err error) (interface{}, error) {
	if s, ok := v.(string); ok && len(s) > MaxStr {
		m.Env = true
		return nil, merr("string longer than the envelope")
	}
	return v, err
}

// BinOp applies a non-logical binary operator per the documented semantics.
func BinOp(op string, l, r interface{}) (interface{}, error) {
	lf, rf := famOf(l), famOf(r)
	switch op {
	case "+":
		if lf == famString {
			switch rf {
			case famString:
				return l.(string) + reflect.ValueOf(r).String(), nil
			case famInt:
				return fmt.Sprintf("%s%d", l, asI(r)), nil
			case famUint:
				return fmt.Sprintf("%s%d", l, asU(r)), nil
			case famFloat:
				return fmt.Sprintf("%s%f", l, asF(r)), nil
			case famBool:
				return fmt.Sprintf("%s%v", l, r), nil
			case famTime:
				return fmt.Sprintf("%s%s", l, r.(time.Time).Format(time.RFC3339)), nil
			}
			return nil, merr("string + other")
		}
		if rf == famString {
			switch lf {
			case famInt:
				return fmt.Sprintf("%d%s", asI(l), r), nil
			case famUint:
				return fmt.Sprintf("%d%s", asU(l), r), nil
			case famFloat:
				return fmt.Sprintf("%f%s", asF(l), r), nil
			}
			return nil, merr("other + string")
		}
		return arith(op, l, r)
	case "-", "*":
		return arith(op, l, r)
	case "/":
		if !isNum(lf) || !isNum(rf) {
			return nil, merr("division of non-number")
		}
		return toF(l) / toF(r), nil
	case "%":
		if (lf != famInt && lf != famUint) || (rf != famInt && rf != famUint) {
			return nil, merr("modulo of non-integer")
		}
		d := toI(r)
		if d == 0 {
			return nil, merr("modulo by zero")
		}
		return toI(l) % d, nil
	case "&", "|":
		if (lf != famInt && lf != famUint) || (rf != famInt && rf != famUint) {
			return nil, merr("bit operator on non-integer")
		}
		if lf == famUint && rf == famUint {
			if op == "&" {
				return asU(l) & asU(r), nil
			}
			return asU(l) | asU(r), nil
		}
		if op == "&" {
			return toI(l) & toI(r), nil
		}
		return toI(l) | toI(r), nil
	case "==", "!=", "<", "<=", ">", ">=":
		return compare(op, l, r)
	}
	return nil, fmt.Errorf("model: unknown operator %q", op)
}

func arith(op string, l, r interface{}) (interface{}, error) {
	lf, rf := famOf(l), famOf(r)
	if !isNum(lf) || !isNum(rf) {
		return nil, merr("arithmetic on non-number")
	}
	if lf == famFloat || rf == famFloat {
		a, b := toF(l), toF(r)
		switch op {
		case "+":
			return a + b, nil
		case "-":
			return a - b, nil
		default:
			return a * b, nil
		}
	}
	if lf == famUint && rf == famUint {
		a, b := asU(l), asU(r)
		switch op {
		case "+":
			return a + b, nil
		case "-":
			return a - b, nil
		default:
			return a * b, nil
		}
	}
	a, b := toI(l), toI(r)
	switch op {
	case "+":
		return a + b, nil
	case "-":
		return a - b, nil
	default:
		return a * b, nil
	}
}

func cmpResult(op string, c int) bool {
	switch op {
	case "==":
		return c == 0
	case "!=":
		return c != 0
	case "<":
		return c < 0
	case "<=":
		return c <= 0
	case ">":
		return c > 0
	default:
		return c >= 0
	}
}

func compare(op string, l, r interface{}) (interface{}, error) {
	lf, rf := famOf(l), famOf(r)
	switch {
	case isNum(lf) && isNum(rf):
		var c int
		if lf == famFloat || rf == famFloat {
			a, b := toF(l), toF(r)
			switch op { // IEEE semantics, also for NaN (every ordered comparison with NaN is false)
			case "==":
				return a == b, nil
			case "!=":
				return a != b, nil
			case "<":
				return a < b, nil
			case "<=":
				return a <= b, nil
			case ">":
				return a > b, nil
			default:
				return a >= b, nil
			}
		} else if lf == famUint && rf == famUint {
			a, b := asU(l), asU(r)
			c = cmp3(a < b, a > b)
		} else {
			a, b := toI(l), toI(r)
			c = cmp3(a < b, a > b)
		}
		return cmpResult(op, c), nil
	case lf == famString && rf == famString:
		return cmpResult(op, strings.Compare(reflect.ValueOf(l).String(), reflect.ValueOf(r).String())), nil
	case lf == famBool && rf == famBool:
		if op == "==" {
			return l.(bool) == r.(bool), nil
		}
		if op == "!=" {
			return l.(bool) != r.(bool), nil
		}
		return nil, merr("ordering of booleans")
	case lf == famTime && rf == famTime:
		a, b := l.(time.Time), r.(time.Time)
		switch op {
		case "==":
			return a.Equal(b), nil
		case "!=":
			return !a.Equal(b), nil
		case "<":
			return a.Before(b), nil
		case "<=":
			return a.Before(b) || a.Equal(b), nil
		case ">":
			return a.After(b), nil
		default:
			return a.After(b) || a.Equal(b), nil
		}
	}
	return nil, merr("comparison across families")
}

func cmp3(lt, gt bool) int {
	if lt {
		return -1
	}
	if gt {
		return 1
	}
	return 0
}

// MethodSig describes a harness fact method for generator and model.
type MethodSig struct {
	Name     string
	Params   []Type // for variadic: the element type, repeated as needed
	Variadic bool
	Ret      Type // "" for mutators
	Mutator  bool
	Reads    string // the field the result depends on ("" = none: referentially transparent in its arguments)
}

// Methods lists the methods of *Fact known to generator and model.
var Methods = map[string]MethodSig{
	"Cost":  {Name: "Cost", Params: []Type{TInt}, Ret: TInt},
	"Tag":   {Name: "Tag", Ret: TString},
	"Sum":   {Name: "Sum", Params: []Type{TInt}, Variadic: true, Ret: TInt},
	"Scale": {Name: "Scale", Params: []Type{TFloat}, Ret: TFloat},
	"IsBig": {Name: "IsBig", Params: []Type{TInt}, Ret: TBool},
	"Join":  {Name: "Join", Params: []Type{TString, TString}, Ret: TString},
	"Level": {Name: "Level", Ret: TInt, Reads: "I"},
	"Boom":    {Name: "Boom", Params: []Type{TInt}, Ret: TInt},
	"BoomErr": {Name: "BoomErr", Params: []Type{TInt}, Ret: TInt},
	"Label": {Name: "Label", Ret: TString, Reads: "S"},
	"LabelOf": {Name: "LabelOf", Params: []Type{TString}, Ret: TString, Reads: "S"},
	"SetI":  {Name: "SetI", Params: []Type{TInt}, Mutator: true},
	"Bump":  {Name: "Bump", Params: []Type{TInt}, Mutator: true},
	"SetS":  {Name: "SetS", Params: []Type{TString}, Mutator: true},
}

func exactOK(t Type, v interface{}) bool {
	switch t {
	case TInt:
		_, ok := v.(int64)
		return ok
	case TFloat:
		_, ok := v.(float64)
		return ok
	case TString:
		_, ok := v.(string)
		return ok
	case TBool:
		_, ok := v.(bool)
		return ok
	}
	return false
}

// evalCall evaluates a fact method call. Pure methods are computed from the shared pure
// functions; mutators change the model's fact when apply is true.
func (m *Model) evalCall(e *Expr, apply bool) (interface{}, error) {
	recv, err := m.EvalPath(e.Path)
	if err != nil {
		return nil, err
	}
	f, ok := recv.(*Fact)
	if !ok || f == nil {
		return nil, merr("method receiver is not a fact")
	}
	sig, ok := Methods[e.Fn]
	if !ok {
		return nil, merr("no method %s", e.Fn)
	}
	args := make([]interface{}, len(e.Args))
	for i, a := range e.Args {
		v, err := m.Eval(a)
		if err != nil {
			return nil, err
		}
		args[i] = v
	}
	if sig.Variadic {
		for _, a := range args {
			if !exactOK(sig.Params[0], a) {
				return nil, merr("argument kind mismatch in %s", e.Fn)
			}
		}
	} else {
		if len(args) != len(sig.Params) {
			return nil, merr("arity mismatch in %s", e.Fn)
		}
		for i, a := range args {
			if !exactOK(sig.Params[i], a) {
				return nil, merr("argument kind mismatch in %s", e.Fn)
			}
		}
	}
	switch e.Fn {
	case "Cost":
		return CostFn(args[0].(int64)), nil
	case "Tag":
		return "tag", nil
	case "Level":
		return f.I, nil
	case "Boom", "BoomErr":
		return nil, merr("method %s panics", e.Fn)
	case "Label":
		return f.S, nil
	case "LabelOf":
		return args[0].(string) + ":" + f.S, nil
	case "Sum":
		xs := make([]int64, len(args))
		for i, a := range args {
			xs[i] = a.(int64)
		}
		return SumFn(xs), nil
	case "Scale":
		return ScaleFn(args[0].(float64)), nil
	case "IsBig":
		return IsBigFn(args[0].(int64)), nil
	case "Join":
		return JoinFn(args[0].(string), args[1].(string)), nil
	case "SetI":
		if apply {
			f.I = args[0].(int64)
		}
		return nil, nil
	case "Bump":
		if apply {
			f.I += args[0].(int64)
		}
		return nil, nil
	case "SetS":
		if apply {
			f.S = args[0].(string)
		}
		return nil, nil
	}
	return nil, merr("no method %s", e.Fn)
}

func (m *Model) evalVfn(e *Expr) (interface{}, error) {
	recv, err := m.Eval(e.L)
	if err != nil {
		return nil, err
	}
	args := make([]interface{}, len(e.Args))
	for i, a := range e.Args {
		v, err := m.Eval(a)
		if err != nil {
			return nil, err
		}
		args[i] = v
	}
	rv := reflect.ValueOf(recv)
	if !rv.IsValid() {
		return nil, merr("built-in on nil")
	}
	switch rv.Kind() {
	case reflect.String:
		s := rv.String()
		strArg := func(n int) ([]string, error) {
			if len(args) != n {
				return nil, merr("%s needs %d argument(s)", e.Fn, n)
			}
			out := make([]string, n)
			for i, a := range args {
				as, ok := a.(string)
				if !ok {
					return nil, merr("%s needs string arguments", e.Fn)
				}
				out[i] = as
			}
			return out, nil
		}
		switch e.Fn {
		case "Len":
			if len(args) != 0 {
				return nil, merr("Len takes no argument")
			}
			return len(s), nil
		case "ToUpper":
			if _, err := strArg(0); err != nil {
				return nil, err
			}
			return strings.ToUpper(s), nil
		case "ToLower":
			if _, err := strArg(0); err != nil {
				return nil, err
			}
			return strings.ToLower(s), nil
		case "Trim":
			if _, err := strArg(0); err != nil {
				return nil, err
			}
			return strings.TrimSpace(s), nil
		case "Contains":
			a, err := strArg(1)
			if err != nil {
				return nil, err
			}
			return strings.Contains(s, a[0]), nil
		case "HasPrefix":
			a, err := strArg(1)
			if err != nil {
				return nil, err
			}
			return strings.HasPrefix(s, a[0]), nil
		case "HasSuffix":
			a, err := strArg(1)
			if err != nil {
				return nil, err
			}
			return strings.HasSuffix(s, a[0]), nil
		case "Index":
			a, err := strArg(1)
			if err != nil {
				return nil, err
			}
			return strings.Index(s, a[0]), nil
		case "Count":
			a, err := strArg(1)
			if err != nil {
				return nil, err
			}
			return strings.Count(s, a[0]), nil
		case "Compare":
			a, err := strArg(1)
			if err != nil {
				return nil, err
			}
			return strings.Compare(s, a[0]), nil
		case "LastIndex":
			a, err := strArg(1)
			if err != nil {
				return nil, err
			}
			return strings.LastIndex(s, a[0]), nil
		case "Replace":
			a, err := strArg(2)
			if err != nil {
				return nil, err
			}
			return strings.ReplaceAll(s, a[0], a[1]), nil
		case "MatchString":
			a, err := strArg(1)
			if err != nil {
				return nil, err
			}
			ok, rerr := regexp.MatchString(a[0], s)
			if rerr != nil {
				return nil, merr("invalid pattern")
			}
			return ok, nil
		case "In": // equals one of the arguments
			for _, x := range args {
				xs, ok := x.(string)
				if !ok {
					return nil, merr("In needs string arguments")
				}
				if xs == s {
					return true, nil
				}
			}
			return false, nil
		}
		return nil, merr("unsupported string function %s", e.Fn)
	case reflect.Slice, reflect.Array, reflect.Map:
		if e.Fn == "Len" {
			if len(args) != 0 {
				return nil, merr("Len takes no argument")
			}
			return rv.Len(), nil
		}
		return nil, merr("unsupported container function %s", e.Fn)
	}
	return nil, merr("built-in %s on %s", e.Fn, rv.Kind())
}

func (m *Model) evalBfn(e *Expr) (interface{}, error) {
	args := make([]interface{}, len(e.Args))
	for i, a := range e.Args {
		v, err := m.Eval(a)
		if err != nil {
			return nil, err
		}
		args[i] = v
	}
	switch e.Fn {
	case "IsNil":
		if len(args) != 1 {
			return nil, merr("IsNil arity")
		}
		rv := reflect.ValueOf(args[0])
		if !rv.IsValid() {
			return true, nil
		}
		switch rv.Kind() {
		case reflect.Ptr, reflect.Map, reflect.Slice, reflect.Interface:
			return rv.IsNil(), nil
		case reflect.Struct:
			return false, nil
		}
		return nil, merr("IsNil on %s", rv.Kind())
	case "IsZero":
		if len(args) != 1 {
			return nil, merr("IsZero arity")
		}
		v := args[0]
		switch famOf(v) {
		case famInt:
			return asI(v) == 0, nil
		case famUint:
			return asU(v) == 0, nil
		case famFloat:
			return asF(v) == 0, nil
		case famString:
			return len(reflect.ValueOf(v).String()) == 0, nil
		case famTime:
			return v.(time.Time).IsZero(), nil
		}
		rv := reflect.ValueOf(v)
		if rv.IsValid() && rv.Kind() == reflect.Ptr {
			return rv.IsNil(), nil
		}
		return false, nil
	}
	floats := func(n int) ([]float64, error) {
		if n >= 0 && len(args) != n {
			return nil, merr("%s arity", e.Fn)
		}
		out := make([]float64, len(args))
		for i, a := range args {
			f, ok := a.(float64) // exact Go type needed
			if !ok {
				return nil, merr("%s needs float64 arguments", e.Fn)
			}
			out[i] = f
		}
		return out, nil
	}
	switch e.Fn {
	case "Max", "Min":
		fs, err := floats(-1)
		if err != nil {
			return nil, err
		}
		v := 0.0
		for i, f := range fs {
			if i == 0 || (e.Fn == "Max" && f > v) || (e.Fn == "Min" && f < v) {
				v = f
			}
		}
		return v, nil
	case "Abs", "Floor", "Ceil", "Round", "Trunc":
		fs, err := floats(1)
		if err != nil {
			return nil, err
		}
		switch e.Fn {
		case "Abs":
			return math.Abs(fs[0]), nil
		case "Floor":
			return math.Floor(fs[0]), nil
		case "Ceil":
			return math.Ceil(fs[0]), nil
		case "Round":
			return math.Round(fs[0]), nil
		default:
			return math.Trunc(fs[0]), nil
		}
	case "StringContains":
		if len(args) != 2 {
			return nil, merr("StringContains arity")
		}
		a, ok1 := args[0].(string)
		b, ok2 := args[1].(string)
		if !ok1 || !ok2 {
			return nil, merr("StringContains needs strings")
		}
		return strings.Contains(a, b), nil
	case "GetTimeYear", "GetTimeMonth", "GetTimeDay":
		if len(args) != 1 {
			return nil, merr("%s arity", e.Fn)
		}
		t, ok := args[0].(time.Time)
		if !ok {
			return nil, merr("%s needs a time", e.Fn)
		}
		switch e.Fn {
		case "GetTimeYear":
			return t.Year(), nil
		case "GetTimeMonth":
			return int(t.Month()), nil
		default:
			return t.Day(), nil
		}
	case "IsTimeBefore", "IsTimeAfter":
		if len(args) != 2 {
			return nil, merr("%s arity", e.Fn)
		}
		a, ok1 := args[0].(time.Time)
		b, ok2 := args[1].(time.Time)
		if !ok1 || !ok2 {
			return nil, merr("%s needs times", e.Fn)
		}
		if e.Fn == "IsTimeBefore" {
			return a.Before(b), nil
		}
		return a.After(b), nil
	}
	return nil, merr("unknown built-in %s", e.Fn)
}

// Truth is the three-valued outcome of a condition.
type Truth int

const (
	False Truth = iota
	True
	Err
)

func (t Truth) String() string { return [...]string{"false", "true", "error"}[t] }

// Cond evaluates a rule condition.
func (m *Model) Cond(r *Rule) Truth {
	v, err := m.Eval(r.When)
	if err != nil {
		return Err
	}
	b, ok := v.(bool)
	if !ok {
		return Err
	}
	if b {
		return True
	}
	return False
}

// convertTo converts a numeric value to the numeric destination type (Go conversion rules).
func convertTo(dst reflect.Type, v interface{}) reflect.Value {
	out := reflect.New(dst).Elem()
	sf := famOf(v)
	switch dst.Kind() {
	case reflect.Int, reflect.Int8, reflect.Int16, reflect.Int32, reflect.Int64:
		switch sf {
		case famUint:
			out.SetInt(int64(asU(v)))
		case famFloat:
			out.SetInt(int64(asF(v)))
		default:
			out.SetInt(asI(v))
		}
	case reflect.Uint, reflect.Uint8, reflect.Uint16, reflect.Uint32, reflect.Uint64:
		switch sf {
		case famUint:
			out.SetUint(asU(v))
		case famFloat:
			out.SetUint(uint64(asF(v)))
		default:
			out.SetUint(uint64(asI(v)))
		}
	case reflect.Float32, reflect.Float64:
		out.SetFloat(toF(v))
	}
	return out
}

func isNumKind(k reflect.Kind) bool {
	switch k {
	case reflect.Int, reflect.Int8, reflect.Int16, reflect.Int32, reflect.Int64,
		reflect.Uint, reflect.Uint8, reflect.Uint16, reflect.Uint32, reflect.Uint64,
		reflect.Float32, reflect.Float64:
		return true
	}
	return false
}

// storeGo stores v into an addressable Go location with the engine's conversion rule:
// numeric destination takes any number (converted); anything else needs the exact type.
func storeGo(dst reflect.Value, v interface{}) error {
	if isNumKind(dst.Kind()) && isNum(famOf(v)) {
		dst.Set(convertTo(dst.Type(), v))
		return nil
	}
	vv := reflect.ValueOf(v)
	if !vv.IsValid() || vv.Type() != dst.Type() {
		return merr("cannot assign %T to %s", v, dst.Type())
	}
	dst.Set(vv)
	return nil
}

// Assign stores v at the path.
func (m *Model) Assign(p *Path, v interface{}) error {
	if len(p.Steps) == 0 {
		m.S[p.Root] = v
		return nil
	}
	// evaluate the container (all steps but the last)
	cur, err := m.root(p.Root)
	if err != nil {
		return err
	}
	for i := 0; i < len(p.Steps)-1; i++ {
		cur, err = m.step(cur, &p.Steps[i])
		if err != nil {
			return err
		}
	}
	last := &p.Steps[len(p.Steps)-1]
	rv := reflect.ValueOf(cur)
	if !rv.IsValid() {
		return merr("assignment through nil")
	}
	if last.Sel == nil {
		switch rv.Kind() {
		case reflect.Ptr:
			if rv.IsNil() || rv.Elem().Kind() != reflect.Struct {
				return merr("assignment through nil pointer")
			}
			f := rv.Elem().FieldByName(last.Field)
			if !f.IsValid() || !f.CanSet() {
				return merr("no settable field %s", last.Field)
			}
			if f.Kind() == reflect.Ptr && isNumKind(f.Type().Elem().Kind()) && isNum(famOf(v)) {
				if f.IsNil() {
					return merr("assignment through nil pointer to number")
				}
				return storeGo(f.Elem(), v) // written through the pointer: the pointer itself stays
			}
			return storeGo(f, v)
		case reflect.Map: // JSON object: stores the value with the kind it has
			if rv.Type().Elem().Kind() != reflect.Interface {
				return merr("field assignment on a Go map")
			}
			rv.SetMapIndex(reflect.ValueOf(last.Field), reflect.ValueOf(v))
			return nil
		}
		return merr("field assignment on %s", rv.Kind())
	}
	sel, err := m.Eval(last.Sel)
	if err != nil {
		return err
	}
	switch rv.Kind() {
	case reflect.Slice:
		if famOf(sel) != famInt {
			return merr("array selector must be a signed integer")
		}
		idx := int(asI(sel))
		if idx < 0 || idx >= rv.Len() {
			return merr("index %d out of range", idx)
		}
		el := rv.Index(idx)
		if el.Kind() == reflect.Interface { // JSON array
			el.Set(reflect.ValueOf(v))
			return nil
		}
		return storeGo(el, v)
	case reflect.Map:
		if reflect.TypeOf(sel) != rv.Type().Key() {
			return merr("map selector kind mismatch")
		}
		if rv.Type().Elem().Kind() == reflect.Interface {
			rv.SetMapIndex(reflect.ValueOf(sel), reflect.ValueOf(v))
			return nil
		}
		vv := reflect.ValueOf(v)
		if !vv.IsValid() || vv.Type() != rv.Type().Elem() {
			return merr("map entries need exactly the element type")
		}
		if rv.IsNil() {
			return merr("assignment to entry in nil map")
		}
		rv.SetMapIndex(reflect.ValueOf(sel), vv)
		return nil
	}
	return merr("selector assignment on %s", rv.Kind())
}

// ActionEffect reports the control effect of an action for the engine-level model.
type ActionEffect struct {
	Retract  string
	Complete bool
}

// Apply executes one action on the model state.
func (m *Model) Apply(a *Action) (ActionEffect, error) {
	var eff ActionEffect
	switch a.K {
	case "assign":
		rhs, err := m.Eval(a.E)
		if err != nil {
			return eff, err
		}
		if a.Op == "=" {
			return eff, m.Assign(a.Path, rhs)
		}
		cur, err := m.EvalPath(a.Path)
		if err != nil {
			return eff, err
		}
		nv, err := m.guard(BinOp(a.Op[:1], cur, rhs))
		if err != nil {
			return eff, err
		}
		return eff, m.Assign(a.Path, nv)
	case "retract":
		eff.Retract = a.Name
		return eff, nil
	case "complete":
		eff.Complete = true
		return eff, nil
	case "forget", "changed", "log":
		return eff, nil
	case "mut":
		_, err := m.evalCall(a.E, true)
		return eff, err
	case "eval":
		_, err := m.Eval(a.E)
		return eff, err
	}
	return eff, fmt.Errorf("model: unknown action kind %q", a.K)
}
