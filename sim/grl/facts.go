package grl

import (
	"bytes"
	"encoding/json"
	"fmt"
	"reflect"
	"sort"
	"time"
)

// Leaf, Sub and Fact are the harness fact types. Plain Go, no dependence on the repository.
type Leaf struct {
	V int64  `json:"v"`
	W string `json:"w"`
}

type Sub struct {
	X int64   `json:"x"`
	Y string  `json:"y"`
	Z float64 `json:"z"`
	Q *Leaf   `json:"q,omitempty"`
}

// Hooks lets the simulator observe and perturb fact methods (call counting, fault plan, yields).
type Hooks struct {
	// OnCall is invoked at the start of every fact method; it may panic (fault injection).
	OnCall func(fact string, method string, args []interface{})
}

// Named numeric types: fields of such a type take part in arithmetic by their kind.
type Money float64
type Grade uint8

type Fact struct {
	I   int64   `json:"i"`
	D   time.Duration `json:"d"`  // a named int64
	Mn  Money         `json:"mn"` // a named float64
	Gr  Grade         `json:"gr"` // a named uint8
	I32 int32   `json:"i32"`
	I8  int8    `json:"i8"`
	U64 uint64  `json:"u64"`
	U16 uint16  `json:"u16"`
	U8  uint8   `json:"u8"`
	F   float64 `json:"f"`
	F32 float32 `json:"f32"`
	S   string  `json:"s"`
	S2  string  `json:"s2"`
	B   bool    `json:"b"`
	T   time.Time `json:"t"`
	P   *Sub    `json:"p,omitempty"`
	P2  *Sub    `json:"p2,omitempty"` // spare object: rules only ever use it as the source of `X.P = X.P2`
	PN  *int64  `json:"pn,omitempty"` // pointer to a number: written THROUGH the pointer, never re-pointed
	A   []int64 `json:"a"`
	AS  []string `json:"as"`
	AF  []float32 `json:"af"`
	L   []*Sub            `json:"l"`  // slice of struct pointers: F.L[1].X
	MP  map[string]*Sub   `json:"mp"` // map of struct pointers: F.MP["k1"].Y
	M   map[string]int64  `json:"m"`
	MS  map[string]string `json:"ms"`
	MI  map[int64]int64   `json:"mi"` // map with integer keys: F.MI[1]
	// AI is a slice of interface values in a Go fact, layout [int64, string, float64]: an element keeps
	// the kind of whatever is stored into it; the engine reads it only inside arithmetic and comparisons.
	AI []interface{} `json:"ai"`

	name  string
	hooks *Hooks
}

// Bind attaches a name and hooks (not part of the fact's data).
func (f *Fact) Bind(name string, h *Hooks) { f.name = name; f.hooks = h }

func (f *Fact) on(method string, args ...interface{}) {
	if f.hooks != nil && f.hooks.OnCall != nil {
		f.hooks.OnCall(f.name, method, args)
	}
}

// Pure methods (referentially transparent in their arguments; they read no field).

func (f *Fact) Cost(x int64) int64 { f.on("Cost", x); return CostFn(x) }
func (f *Fact) Tag() string       { f.on("Tag"); return "tag" }
func (f *Fact) Sum(xs ...int64) int64 {
	a := make([]interface{}, len(xs))
	for i, x := range xs {
		a[i] = x
	}
	f.on("Sum", a...)
	return SumFn(xs)
}
func (f *Fact) Scale(x float64) float64 { f.on("Scale", x); return ScaleFn(x) }
func (f *Fact) IsBig(x int64) bool      { f.on("IsBig", x); return IsBigFn(x) }
func (f *Fact) Join(a string, b string) string { f.on("Join", a, b); return JoinFn(a, b) }

// Methods whose result depends on a field: a rule that changes that field announces it with
// Forget/Changed naming the CALL ("F.Level()"), as Function_en.md documents.

func (f *Fact) Level() int64  { f.on("Level"); return f.I }
func (f *Fact) Label() string { f.on("Label"); return f.S }

// LabelOf depends on the field S as well; its call text carries a string literal (possibly with a space
// in it), and it is that exact text a rule announces when it changes S.
func (f *Fact) LabelOf(p string) string { f.on("LabelOf", p); return p + ":" + f.S }

// Methods that always panic (natural faults of C14): with a string value and with an error value.

func (f *Fact) Boom(x int64) int64    { f.on("Boom", x); panic("boom") }
func (f *Fact) BoomErr(x int64) int64 { f.on("BoomErr", x); panic(fmt.Errorf("boom error %d", x)) }

// Documented-protocol mutators: a rule that calls one announces the change with Changed/Forget.

func (f *Fact) SetI(v int64) { f.on("SetI", v); f.I = v }
func (f *Fact) Bump(k int64) { f.on("Bump", k); f.I += k }
func (f *Fact) SetS(s string) { f.on("SetS", s); f.S = s }

// The pure functions behind the methods, shared with the reference model.
func CostFn(x int64) int64      { return x*3 + 1 }
func SumFn(xs []int64) int64    { var s int64; for _, x := range xs { s += x }; return s }
func ScaleFn(x float64) float64 { return x*2 + 0.5 }
func IsBigFn(x int64) bool      { return x >= 10 }
func JoinFn(a, b string) string { return a + "-" + b }

// Facts is the complete fact state of one run.
type Facts struct {
	F *Fact   `json:"F,omitempty"`
	G *Fact   `json:"G,omitempty"`
	N int64   `json:"N"`
	Z string  `json:"Z"`
	// J is a JSON document added with AddJSON.
	J json.RawMessage `json:"J,omitempty"`
	// Omit lists top-level names that are NOT added to the data context (missing-fact faults).
	Omit []string `json:"omit,omitempty"`
}

// CloneFacts deep-copies through JSON (all fact data is JSON-representable by construction).
func CloneFacts(f *Facts) *Facts {
	b, err := json.Marshal(f)
	if err != nil {
		panic(err)
	}
	var c Facts
	if err := json.Unmarshal(b, &c); err != nil {
		panic(err)
	}
	return &c
}

// State is the live, typed fact state: what the data context holds, as plain Go values.
// Keys: "F","G" -> *Fact; "N","Z",... -> scalar interface{}; "J" -> decoded JSON (map[string]interface{}).
type State map[string]interface{}

// NewState materialises Facts into live objects.
func NewState(f *Facts) State {
	c := CloneFacts(f)
	s := State{}
	omit := map[string]bool{}
	for _, o := range f.Omit {
		omit[o] = true
	}
	if c.F != nil && !omit["F"] {
		normFact(c.F)
		s["F"] = c.F
	}
	if c.G != nil && !omit["G"] {
		normFact(c.G)
		s["G"] = c.G
	}
	if !omit["N"] {
		s["N"] = c.N
	}
	if !omit["Z"] {
		s["Z"] = c.Z
	}
	if len(c.J) > 0 && !omit["J"] {
		var o interface{}
		if err := json.Unmarshal(c.J, &o); err != nil {
			panic(err)
		}
		s["J"] = o
	}
	return s
}

func normFact(f *Fact) {
	f.T = f.T.UTC()
	// the JSON copy turns the int64 of the interface slice into a float64: restore the layout
	if len(f.AI) > 0 {
		if x, ok := f.AI[0].(float64); ok {
			f.AI[0] = int64(x)
		}
	}
}

// Canon renders a state canonically (sorted maps, explicit Go kinds) for comparison and hashing.
func Canon(s State) string {
	keys := make([]string, 0, len(s))
	for k := range s {
		keys = append(keys, k)
	}
	sort.Strings(keys)
	var b bytes.Buffer
	for _, k := range keys {
		fmt.Fprintf(&b, "%s=", k)
		canonValue(&b, reflect.ValueOf(s[k]))
		b.WriteString("\n")
	}
	return b.String()
}

func canonValue(b *bytes.Buffer, v reflect.Value) {
	if !v.IsValid() {
		b.WriteString("<invalid>")
		return
	}
	switch v.Kind() {
	case reflect.Ptr:
		if v.IsNil() {
			b.WriteString("nil")
			return
		}
		b.WriteString("&")
		canonValue(b, v.Elem())
	case reflect.Interface:
		if v.IsNil() {
			b.WriteString("nil")
			return
		}
		canonValue(b, v.Elem())
	case reflect.Struct:
		if t, ok := v.Interface().(time.Time); ok {
			fmt.Fprintf(b, "time(%s)", t.UTC().Format(time.RFC3339Nano))
			return
		}
		b.WriteString("{")
		for i := 0; i < v.NumField(); i++ {
			sf := v.Type().Field(i)
			if sf.PkgPath != "" { // unexported: harness bookkeeping, not fact data
				continue
			}
			fmt.Fprintf(b, "%s:", sf.Name)
			canonValue(b, v.Field(i))
			b.WriteString(" ")
		}
		b.WriteString("}")
	case reflect.Slice, reflect.Array:
		if v.Kind() == reflect.Slice && v.IsNil() {
			b.WriteString("[]")
			return
		}
		b.WriteString("[")
		for i := 0; i < v.Len(); i++ {
			canonValue(b, v.Index(i))
			b.WriteString(",")
		}
		b.WriteString("]")
	case reflect.Map:
		ks := v.MapKeys()
		sort.Slice(ks, func(i, j int) bool { return fmt.Sprint(ks[i].Interface()) < fmt.Sprint(ks[j].Interface()) })
		b.WriteString("map[")
		for _, k := range ks {
			fmt.Fprintf(b, "%v:", k.Interface())
			canonValue(b, v.MapIndex(k))
			b.WriteString(",")
		}
		b.WriteString("]")
	case reflect.String:
		fmt.Fprintf(b, "%s(%q)", v.Type().Kind(), v.String())
	case reflect.Float32, reflect.Float64:
		fmt.Fprintf(b, "%s(%v)", v.Type().Kind(), v.Float())
	case reflect.Int, reflect.Int8, reflect.Int16, reflect.Int32, reflect.Int64:
		// by kind, not by type name: where a value of a named numeric type travels through a location of no
		// fixed type (top-level variable, JSON member, interface element) only kind and value are its identity
		fmt.Fprintf(b, "%s(%d)", v.Type().Kind(), v.Int())
	case reflect.Uint, reflect.Uint8, reflect.Uint16, reflect.Uint32, reflect.Uint64:
		fmt.Fprintf(b, "%s(%d)", v.Type().Kind(), v.Uint())
	default:
		fmt.Fprintf(b, "%s(%v)", v.Type().Kind(), v.Interface())
	}
}


// CloneState deep-copies a live state (facts, scalars, decoded JSON) by reflection.
func CloneState(s State) State {
	out := State{}
	for k, v := range s {
		out[k] = deepCopy(reflect.ValueOf(v)).Interface()
	}
	return out
}

func deepCopy(v reflect.Value) reflect.Value {
	if !v.IsValid() {
		return v
	}
	switch v.Kind() {
	case reflect.Ptr:
		if v.IsNil() {
			return v
		}
		n := reflect.New(v.Type().Elem())
		n.Elem().Set(deepCopy(v.Elem()))
		return n
	case reflect.Interface:
		if v.IsNil() {
			return v
		}
		n := reflect.New(v.Type()).Elem()
		n.Set(deepCopy(v.Elem()))
		return n
	case reflect.Struct:
		if _, ok := v.Interface().(time.Time); ok {
			return v
		}
		n := reflect.New(v.Type()).Elem()
		n.Set(v) // copies unexported bookkeeping fields as they are
		for i := 0; i < v.NumField(); i++ {
			if v.Type().Field(i).PkgPath != "" {
				continue
			}
			n.Field(i).Set(deepCopy(v.Field(i)))
		}
		return n
	case reflect.Slice:
		if v.IsNil() {
			return v
		}
		n := reflect.MakeSlice(v.Type(), v.Len(), v.Len())
		for i := 0; i < v.Len(); i++ {
			n.Index(i).Set(deepCopy(v.Index(i)))
		}
		return n
	case reflect.Map:
		if v.IsNil() {
			return v
		}
		n := reflect.MakeMapWithSize(v.Type(), v.Len())
		it := v.MapRange()
		for it.Next() {
			n.SetMapIndex(it.Key(), deepCopy(it.Value()))
		}
		return n
	}
	return v
}
