// Package grl holds the harness-side description of GRL programs: an explicit AST that can be
// stored in a replay file, printed as GRL text for the real builder, generated from a PRNG, and
// interpreted by a memory-free reference model. It shares no code with the repository under test.
package grl

import (
	"math"
	"fmt"
	"strconv"
	"strings"
)

// Type is the harness-level static type of an expression.
type Type string

const (
	TInt    Type = "int"   // any signed integer kind
	TUint   Type = "uint"  // any unsigned integer kind
	TFloat  Type = "float" // float32/float64
	TString Type = "string"
	TBool   Type = "bool"
	TTime   Type = "time"
	TPtr    Type = "ptr" // pointer to struct (only for IsNil)
)

// Step is one step of a path: a field/member name or a selector expression.
type Step struct {
	Field string `json:"f,omitempty"`
	Sel   *Expr  `json:"sel,omitempty"`
}

// Path addresses a fact value: a top-level name followed by steps.
type Path struct {
	Root  string `json:"root"`
	Steps []Step `json:"steps,omitempty"`
}

// Expr is a GRL expression.
//
//	K = "lit"  : literal (LitK in int/float/string/bool)
//	K = "path" : fact path
//	K = "bin"  : binary operator Op over L, R
//	K = "not"  : !( L )
//	K = "call" : fact method call  Recv.Fn(Args...)          (Recv is a path to a struct pointer)
//	K = "vfn"  : built-in on a value  L.Fn(Args...)          (L is an atom: path, string literal, call, vfn)
//	K = "bfn"  : global built-in  Fn(Args...)                (IsNil, IsZero, ...)
type Expr struct {
	K    string  `json:"k"`
	LitK string  `json:"lk,omitempty"`
	I    int64   `json:"i,omitempty"`
	F    float64 `json:"fl,omitempty"`
	S    string  `json:"s,omitempty"`
	B    bool    `json:"b,omitempty"`
	Path *Path   `json:"p,omitempty"`
	Op   string  `json:"op,omitempty"`
	L    *Expr   `json:"l,omitempty"`
	R    *Expr   `json:"r,omitempty"`
	Fn   string  `json:"fn,omitempty"`
	Args []*Expr `json:"args,omitempty"`
	// Raw, when non-empty, is printed verbatim instead of the structured form (used by
	// hand-written directed scenarios; such expressions are not interpreted by the model).
	Raw string `json:"raw,omitempty"`
	// Alt selects another notation of the same literal: integers 1 = hexadecimal, 2 = octal; booleans
	// 1 = upper case, 2 = capitalised, 3 = mixed (keywords are case-insensitive); strings with bytes above 0x7f:
	// 1 = \xNN escapes, 2 = octal escapes, one per byte. The value is the same.
	Alt int `json:"alt,omitempty"`
}

// Action is one statement of a then-block.
//
//	K = "assign"   : Path Op Expr       (Op in = += -= *= /=)
//	K = "retract"  : Retract("Name")
//	K = "complete" : Complete()
//	K = "forget" / "changed" : Forget("Text") / Changed("Text")
//	K = "mut"      : side-effecting fact method call statement  Call   (Call.K == "call")
//	K = "eval"     : a side-effect-free fact method call used as a statement (its value is discarded)  E
//	K = "log"      : Log("Text")
type Action struct {
	K    string `json:"k"`
	Path *Path  `json:"p,omitempty"`
	Op   string `json:"op,omitempty"`
	E    *Expr  `json:"e,omitempty"`
	Name string `json:"name,omitempty"`
	Text string `json:"text,omitempty"`
}

// Rule is one GRL rule.
type Rule struct {
	Name     string    `json:"name"`
	Desc     *string   `json:"desc,omitempty"`
	Salience *int64    `json:"sal,omitempty"`
	When     *Expr     `json:"when"`
	Then     []*Action `json:"then"`
}

// Sal returns the effective salience (default 0).
func (r *Rule) Sal() int64 {
	if r.Salience == nil {
		return 0
	}
	return *r.Salience
}

// Program is a rule set.
type Program struct {
	Rules []*Rule `json:"rules"`
}

// ---------------------------------------------------------------------------------------------
// Printing

func quote(s string) string {
	return strconv.Quote(s)
}

// quoteBytes writes every byte above 0x7f as an escape that denotes ONE byte: \xNN (alt 1) or \NNN (alt 2).
// Several such escapes in a row make up one character: "caf\xc3\xa9" is "café".
func quoteBytes(s string, alt int) string {
	var b strings.Builder
	b.WriteByte('"')
	for i := 0; i < len(s); i++ {
		c := s[i]
		switch {
		case c >= 0x80 && alt == 1:
			fmt.Fprintf(&b, "\\x%02x", c)
		case c >= 0x80:
			fmt.Fprintf(&b, "\\%03o", c)
		default:
			q := strconv.Quote(string(rune(c)))
			b.WriteString(q[1 : len(q)-1])
		}
	}
	b.WriteByte('"')
	return b.String()
}

// PrintPath renders a path as GRL text.
func PrintPath(p *Path) string {
	var b strings.Builder
	b.WriteString(p.Root)
	for _, s := range p.Steps {
		if s.Sel != nil {
			b.WriteString("[")
			b.WriteString(PrintExpr(s.Sel))
			b.WriteString("]")
		} else {
			b.WriteString(".")
			b.WriteString(s.Field)
		}
	}
	return b.String()
}

func fmtFloat(f float64) string {
	s := strconv.FormatFloat(f, 'f', -1, 64)
	if !strings.Contains(s, ".") {
		s += ".0"
	}
	return s
}

func isAtom(e *Expr) bool {
	switch e.K {
	case "lit", "path", "call", "vfn", "bfn":
		return true
	}
	return false
}

// PrintExpr renders an expression as GRL text. Binary sub-expressions are always parenthesised,
// so the text never relies on operator precedence (precedence is not a subject of these checks).
func PrintExpr(e *Expr) string {
	if e.Raw != "" {
		return e.Raw
	}
	switch e.K {
	case "lit":
		switch e.LitK {
		case "int":
			if e.Alt != 0 && e.I != 0 && e.I != math.MinInt64 {
				sign, v := "", e.I
				if v < 0 {
					sign, v = "-", -v
				}
				if e.Alt == 1 {
					return sign + "0x" + strings.ToUpper(strconv.FormatInt(v, 16))
				}
				return sign + "0" + strconv.FormatInt(v, 8)
			}
			return strconv.FormatInt(e.I, 10)
		case "float":
			return fmtFloat(e.F)
		case "string":
			if e.Alt != 0 {
				return quoteBytes(e.S, e.Alt)
			}
			return quote(e.S)
		case "bool":
			t := "false"
			if e.B {
				t = "true"
			}
			switch e.Alt {
			case 1:
				return strings.ToUpper(t)
			case 2:
				return strings.ToUpper(t[:1]) + t[1:]
			case 3: // any mix of cases is the keyword
				b := []byte(t)
				for i := 1; i < len(b); i += 2 {
					b[i] = b[i] - 'a' + 'A'
				}
				return string(b)
			}
			return t
		}
	case "path":
		return PrintPath(e.Path)
	case "bin":
		return printOperand(e.L) + " " + e.Op + " " + printOperand(e.R)
	case "not":
		return "!(" + PrintExpr(e.L) + ")"
	case "call":
		return PrintPath(e.Path) + "." + e.Fn + "(" + printArgs(e.Args) + ")"
	case "vfn":
		return PrintExpr(e.L) + "." + e.Fn + "(" + printArgs(e.Args) + ")"
	case "bfn":
		return e.Fn + "(" + printArgs(e.Args) + ")"
	}
	panic(fmt.Sprintf("grl: cannot print expression kind %q/%q", e.K, e.LitK))
}

func printOperand(e *Expr) string {
	if isAtom(e) || e.K == "not" {
		return PrintExpr(e)
	}
	return "(" + PrintExpr(e) + ")"
}

func printArgs(args []*Expr) string {
	parts := make([]string, len(args))
	for i, a := range args {
		parts[i] = PrintExpr(a)
	}
	return strings.Join(parts, ", ")
}

// PrintAction renders an action (without the trailing semicolon).
func PrintAction(a *Action) string {
	switch a.K {
	case "assign":
		return PrintPath(a.Path) + " " + a.Op + " " + PrintExpr(a.E)
	case "retract":
		return "Retract(" + quote(a.Name) + ")"
	case "complete":
		return "Complete()"
	case "forget":
		return "Forget(" + quote(a.Text) + ")"
	case "changed":
		return "Changed(" + quote(a.Text) + ")"
	case "mut", "eval":
		return PrintExpr(a.E)
	case "log":
		return "Log(" + quote(a.Text) + ")"
	case "raw":
		return a.Text
	}
	panic("grl: cannot print action kind " + a.K)
}

// PrintRule renders a rule as GRL text.
func PrintRule(r *Rule) string {
	var b strings.Builder
	b.WriteString("rule ")
	b.WriteString(r.Name)
	if r.Desc != nil {
		b.WriteString(" ")
		b.WriteString(quote(*r.Desc))
	}
	if r.Salience != nil {
		b.WriteString(" salience ")
		b.WriteString(strconv.FormatInt(*r.Salience, 10))
	}
	b.WriteString(" {\n  when\n    ")
	b.WriteString(PrintExpr(r.When))
	b.WriteString("\n  then\n")
	for _, a := range r.Then {
		b.WriteString("    ")
		b.WriteString(PrintAction(a))
		b.WriteString(";\n")
	}
	b.WriteString("}\n")
	return b.String()
}

// PrintProgram renders all rules.
func PrintProgram(p *Program) string {
	var b strings.Builder
	for _, r := range p.Rules {
		b.WriteString(PrintRule(r))
		b.WriteString("\n")
	}
	return b.String()
}

// ---------------------------------------------------------------------------------------------
// Constructors used by the generator and by directed templates.

func LitInt(i int64) *Expr      { return &Expr{K: "lit", LitK: "int", I: i} }
func LitFloat(f float64) *Expr  { return &Expr{K: "lit", LitK: "float", F: f} }
func LitStr(s string) *Expr     { return &Expr{K: "lit", LitK: "string", S: s} }
func LitBool(b bool) *Expr      { return &Expr{K: "lit", LitK: "bool", B: b} }
func PathE(p *Path) *Expr       { return &Expr{K: "path", Path: p} }
func Bin(op string, l, r *Expr) *Expr { return &Expr{K: "bin", Op: op, L: l, R: r} }
func Not(e *Expr) *Expr         { return &Expr{K: "not", L: e} }

// P builds a path from a dotted string without selectors, e.g. "F.P.X".
func P(dotted string) *Path {
	parts := strings.Split(dotted, ".")
	p := &Path{Root: parts[0]}
	for _, f := range parts[1:] {
		p.Steps = append(p.Steps, Step{Field: f})
	}
	return p
}

// Idx appends a selector step.
func (p *Path) Idx(sel *Expr) *Path {
	q := &Path{Root: p.Root, Steps: append(append([]Step{}, p.Steps...), Step{Sel: sel})}
	return q
}

// Dot appends a field step.
func (p *Path) Dot(f string) *Path {
	q := &Path{Root: p.Root, Steps: append(append([]Step{}, p.Steps...), Step{Field: f})}
	return q
}

// CloneExpr deep-copies an expression.
func CloneExpr(e *Expr) *Expr {
	if e == nil {
		return nil
	}
	c := *e
	c.Path = ClonePath(e.Path)
	c.L = CloneExpr(e.L)
	c.R = CloneExpr(e.R)
	if e.Args != nil {
		c.Args = make([]*Expr, len(e.Args))
		for i, a := range e.Args {
			c.Args[i] = CloneExpr(a)
		}
	}
	return &c
}

// ClonePath deep-copies a path.
func ClonePath(p *Path) *Path {
	if p == nil {
		return nil
	}
	c := &Path{Root: p.Root, Steps: make([]Step, len(p.Steps))}
	for i, s := range p.Steps {
		c.Steps[i] = Step{Field: s.Field, Sel: CloneExpr(s.Sel)}
	}
	return c
}

// CloneAction deep-copies an action.
func CloneAction(a *Action) *Action {
	c := *a
	c.Path = ClonePath(a.Path)
	c.E = CloneExpr(a.E)
	return &c
}

// CloneRule deep-copies a rule.
func CloneRule(r *Rule) *Rule {
	c := &Rule{Name: r.Name, When: CloneExpr(r.When)}
	if r.Desc != nil {
		d := *r.Desc
		c.Desc = &d
	}
	if r.Salience != nil {
		s := *r.Salience
		c.Salience = &s
	}
	for _, a := range r.Then {
		c.Then = append(c.Then, CloneAction(a))
	}
	return c
}

// CloneProgram deep-copies a program.
func CloneProgram(p *Program) *Program {
	c := &Program{}
	for _, r := range p.Rules {
		c.Rules = append(c.Rules, CloneRule(r))
	}
	return c
}
