package grl

// Static typing of generated expressions, used by the shrinker to keep candidates well-typed.

var fieldTypes = map[string]Type{
	"I": TInt, "I32": TInt, "I8": TInt, "D": TInt, "Mn": TFloat, "Gr": TUint, "U64": TUint, "U16": TUint, "U8": TUint,
	"F": TFloat, "F32": TFloat, "S": TString, "S2": TString, "B": TBool, "T": TTime,
	"P": TPtr, "P2": TPtr, "PN": TInt, "P.X": TInt, "P.Y": TString, "P.Z": TFloat, "P.Q": TPtr, "P.Q.V": TInt, "P.Q.W": TString,
	"L[].X": TInt, "L[].Y": TString, "L[].Z": TFloat, "MP[].X": TInt, "MP[].Y": TString, "MP[].Z": TFloat, "L[]": TPtr, "MP[]": TPtr,
	"A[]": TInt, "AS[]": TString, "AF[]": TFloat, "M[]": TInt, "MS[]": TString, "MI[]": TInt,
}

var jsonTypes = map[string]Type{"n": TFloat, "s": TString, "b": TBool, "o.k": TFloat, "a[]": TFloat}

// PathType returns the static type of a path ("" when unknown).
func PathType(p *Path) Type {
	key := ""
	for i, s := range p.Steps {
		if s.Sel != nil {
			key += "[]"
		} else {
			if i > 0 {
				key += "."
			}
			key += s.Field
		}
	}
	switch p.Root {
	case "F", "G":
		return fieldTypes[key]
	case "N":
		if key == "" {
			return TInt
		}
	case "Z":
		if key == "" {
			return TString
		}
	case "J":
		return jsonTypes[key]
	}
	return ""
}

// TypeOf returns the static type of an expression ("" when unknown).
func TypeOf(e *Expr) Type {
	if e == nil || e.Raw != "" {
		return ""
	}
	switch e.K {
	case "lit":
		return Type(e.LitK)
	case "path":
		return PathType(e.Path)
	case "not":
		return TBool
	case "call":
		return Methods[e.Fn].Ret
	case "bfn":
		switch e.Fn {
		case "Max", "Min", "Abs", "Floor", "Ceil", "Round", "Trunc":
			return TFloat
		case "GetTimeYear", "GetTimeMonth", "GetTimeDay":
			return TInt
		}
		return TBool
	case "vfn":
		switch e.Fn {
		case "Len", "Index", "Count", "Compare", "LastIndex":
			return TInt
		case "ToUpper", "ToLower", "Trim", "Replace":
			return TString
		default:
			return TBool
		}
	case "bin":
		switch e.Op {
		case "&&", "||", "==", "!=", "<", "<=", ">", ">=":
			return TBool
		case "/":
			return TFloat
		case "%":
			return TInt
		}
		l, r := TypeOf(e.L), TypeOf(e.R)
		if e.Op == "+" && (l == TString || r == TString) {
			return TString
		}
		if l == TFloat || r == TFloat {
			return TFloat
		}
		if l == TUint && r == TUint {
			return TUint
		}
		if l == "" || r == "" {
			return ""
		}
		return TInt
	}
	return ""
}

// LitOf returns simple literals of a type (shrink targets).
func LitOf(t Type) []*Expr {
	switch t {
	case TInt:
		return []*Expr{LitInt(0), LitInt(1)}
	case TFloat:
		return []*Expr{LitFloat(0.5)}
	case TString:
		return []*Expr{LitStr(""), LitStr("a")}
	case TBool:
		return []*Expr{LitBool(true), LitBool(false)}
	}
	return nil
}

// ExprSlots enumerates pointers to every sub-expression slot of a rule set, so that a shrinker can
// replace one sub-expression at a time.
func ExprSlots(p *Program) []**Expr {
	var out []**Expr
	var walk func(slot **Expr)
	walk = func(slot **Expr) {
		e := *slot
		if e == nil {
			return
		}
		out = append(out, slot)
		if e.Path != nil {
			for i := range e.Path.Steps {
				if e.Path.Steps[i].Sel != nil {
					walk(&e.Path.Steps[i].Sel)
				}
			}
		}
		if e.L != nil {
			walk(&e.L)
		}
		if e.R != nil {
			walk(&e.R)
		}
		for i := range e.Args {
			walk(&e.Args[i])
		}
	}
	for _, r := range p.Rules {
		walk(&r.When)
		for _, a := range r.Then {
			if a.K == "eval" { // a bare call statement stays a call: only its arguments are up for simplification
				for i := range a.E.Args {
					walk(&a.E.Args[i])
				}
			} else if a.E != nil {
				walk(&a.E)
			}
			if a.Path != nil {
				for i := range a.Path.Steps {
					if a.Path.Steps[i].Sel != nil {
						walk(&a.Path.Steps[i].Sel)
					}
				}
			}
		}
	}
	return out
}
