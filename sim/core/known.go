package core

import (
	"encoding/json"
	"os"
	"regexp"
)

// KnownFinding is one entry of the committed known-findings file. An entry with Status "known"
// suppresses the VIOLATION line for violations it matches (a KNOWN-FINDING line is printed
// instead); an entry with Status "fixed" suppresses nothing and only documents a repaired defect.
type KnownFinding struct {
	ID       string `json:"id"`
	Property string `json:"property"`
	Status   string `json:"status"` // known | fixed
	Commit   string `json:"commit,omitempty"`
	What     string `json:"what"`
	Match    struct {
		Oracle       string `json:"oracle,omitempty"`        // exact oracle id
		ScenarioRe   string `json:"scenario_regex,omitempty"` // regexp over the minimised scenario's JSON
		MessageRe    string `json:"message_regex,omitempty"`
	} `json:"match"`
}

type KnownFile struct {
	Findings []KnownFinding `json:"findings"`
}

func LoadKnown(path string) (*KnownFile, error) {
	b, err := os.ReadFile(path)
	if err != nil {
		return nil, err
	}
	var k KnownFile
	if err := json.Unmarshal(b, &k); err != nil {
		return nil, err
	}
	return &k, nil
}

// Match returns the known (unrepaired) finding that covers this violation, if any.
func (k *KnownFile) Match(f *Found) *KnownFinding {
	if k == nil {
		return nil
	}
	scJSON, _ := json.Marshal(f.Scenario)
	for i := range k.Findings {
		kf := &k.Findings[i]
		if kf.Status != "known" || kf.Property != f.V.Property {
			continue
		}
		if kf.Match.Oracle != "" && kf.Match.Oracle != f.V.Oracle {
			continue
		}
		if kf.Match.ScenarioRe != "" {
			if ok, _ := regexp.Match(kf.Match.ScenarioRe, scJSON); !ok {
				continue
			}
		}
		if kf.Match.MessageRe != "" {
			if ok, _ := regexp.MatchString(kf.Match.MessageRe, f.V.Message); !ok {
				continue
			}
		}
		return kf
	}
	return nil
}
