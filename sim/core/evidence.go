package core

import (
	"encoding/json"
	"os"
	"path/filepath"
)

// Evidence is the file written by every check run (EVIDENCE.schema.json).
type Evidence struct {
	PropertyID  string                 `json:"property_id"`
	Tier        string                 `json:"tier"`
	Seed        int64                  `json:"seed"`
	Level       string                 `json:"level"`
	Coverage    map[string]interface{} `json:"coverage"`
	Assumptions []string               `json:"assumptions"`
	WallS       float64                `json:"wall_s"`
	Violations  int                    `json:"violations"`
}

func WriteEvidence(dir string, e *Evidence) error {
	if err := os.MkdirAll(dir, 0o755); err != nil {
		return err
	}
	b, err := json.MarshalIndent(e, "", " ")
	if err != nil {
		return err
	}
	return os.WriteFile(filepath.Join(dir, e.PropertyID+".json"), b, 0o644)
}
