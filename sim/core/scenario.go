package core

import (
	"crypto/sha256"
	"encoding/hex"
	"encoding/json"
	"os"
	"path/filepath"

	"grulesim/sim/grl"
)

// Knobs are the per-run configuration choices (swarm).
type Knobs struct {
	MaxCycle  uint64 `json:"max_cycle"`
	RetErr    bool   `json:"ret_err_on_failed_eval"`
	Listeners int    `json:"listeners"`
	Source    string `json:"source"` // direct | grb | reclone
	Mode      string `json:"mode"`   // execute | fetch
	// SplitAt > 0: the rule set is built from two resources (rules[:SplitAt], rules[SplitAt:]) by two
	// BuildRuleFromResource calls instead of one.
	SplitAt int `json:"split_at,omitempty"`
	// RefetchFrom (fetch mode only): the SAME data context object is first used for an unjudged
	// FetchMatchingRules on these other fact values, then the facts are changed in place by the caller's
	// own Go code to the scenario's facts, and the judged call follows.
	RefetchFrom *grl.Facts `json:"refetch_from,omitempty"`
	// RemoveOnInstance: the rules named in "removed" are removed from each instance after it was created
	// (KnowledgeBase.RemoveRuleEntry) instead of from the library before.
	RemoveOnInstance bool `json:"remove_on_instance,omitempty"`
	// OtherInstanceFirst: the data context of the judged call has been used before, for an unjudged
	// FetchMatchingRules on ANOTHER instance of the same library.
	OtherInstanceFirst bool `json:"other_instance_first,omitempty"`
	// RemoveAtCycle k > 0: listener 0 calls KnowledgeBase.RemoveRuleEntry(RemoveAtCycleRule) on the instance
	// from inside the BeginCycle notification of cycle k, i.e. while Execute is running.
	RemoveAtCycle     uint64 `json:"remove_at_cycle,omitempty"`
	RemoveAtCycleRule string `json:"remove_at_cycle_rule,omitempty"`
}

// Fault is one injected fault, positioned by the event number of the run.
type Fault struct {
	At   int    `json:"at"`
	Kind string `json:"kind"` // err | panic | nilfact
}

// Call is one call of a history on a single instance (Sim H(a)).
type Call struct {
	Mode     string     `json:"mode"` // execute | fetch
	Facts    *grl.Facts `json:"facts"`
	Schedule [][]int    `json:"schedule,omitempty"`
	Faults   []Fault    `json:"faults,omitempty"`
	CancelAt int        `json:"cancel_at,omitempty"`
	MaxCycle uint64     `json:"max_cycle"`
	RetErr   bool       `json:"ret_err_on_failed_eval,omitempty"`
}

// Scenario is the explicit, replayable description of one simulated run. It is the replay file.
type Scenario struct {
	Property string `json:"property"`
	Sim      string `json:"sim"`
	Seed     uint64 `json:"seed"` // provenance only: replay never re-generates from it
	Template string `json:"template,omitempty"`

	Knobs   Knobs        `json:"knobs"`
	Program *grl.Program `json:"program,omitempty"`
	GRL     string       `json:"grl,omitempty"` // informational: the text handed to the real builder
	Facts   *grl.Facts   `json:"facts,omitempty"`
	Removed []string     `json:"removed,omitempty"` // rules removed from the library before instantiation

	// Schedule[i] is the permutation (indices into the sorted rule keys) used by the i-th
	// engine loop; missing entries mean sorted order.
	Schedule [][]int `json:"schedule,omitempty"`
	Faults   []Fault `json:"faults,omitempty"`
	// CancelAt: 0 = never, -1 = already cancelled before the call, k>0 = cancel() is called
	// inside seam event k.
	CancelAt   int    `json:"cancel_at,omitempty"`
	DeadlineNs int64  `json:"deadline_ns,omitempty"` // simulated-clock deadline (0 = none)
	// CancelAtCallback k>0: cancel() is called inside the k-th callback of listener 0 (Begin, Evaluate
	// and Execute notifications counted together): cancellation from inside a listener.
	CancelAtCallback int `json:"cancel_at_callback,omitempty"`
	LatSeed    uint64 `json:"lat_seed,omitempty"`

	// Sim H(a)
	Calls []Call `json:"calls,omitempty"`

	// Other simulations keep their own payload here.
	Extra json.RawMessage `json:"extra,omitempty"`

	// Repeat n > 1: the replay runs the very same scenario n times in ONE process and judges the last
	// run. A run is a pure function of the scenario, so this changes nothing - unless the code under
	// test keeps process-wide state that leaks from one run into the next (a violation in itself).
	Repeat int `json:"repeat,omitempty"`

	// History, when set, makes the replay re-run a range of run indices of the check in one process and
	// judge the last of them: the fallback for a violation that needs what EARLIER runs left behind in
	// process-wide state of the code under test (the scenario above is then the minimised last run, for
	// reading; it does not fail on its own).
	History *HistoryReplay `json:"history,omitempty"`

	// Filled in when a violation is reported.
	Violation *ViolationInfo `json:"violation,omitempty"`
}

// HistoryReplay names the run indices From, From+Step, ..., Upto of one check under one seed and tier.
type HistoryReplay struct {
	Tier string `json:"tier"`
	Seed uint64 `json:"seed"`
	From int    `json:"from"`
	Step int    `json:"step"`
	Upto int    `json:"upto"`
}

// ViolationInfo is stored in a replay file next to the minimised scenario.
type ViolationInfo struct {
	Oracle    string   `json:"oracle"`
	Property  string   `json:"property"`
	Message   string   `json:"message"`
	Diagnosis string   `json:"diagnosis,omitempty"`
	LogTail   []string `json:"log_tail,omitempty"`
	KnownAs   string   `json:"known_as,omitempty"`
}

// Violation is what an oracle reports.
type Violation struct {
	Oracle   string `json:"oracle"`   // stable oracle identifier, e.g. C01.fired-while-false
	Property string `json:"property"` // C01 ...
	Message  string `json:"message"`
	Sig      string `json:"sig,omitempty"` // short signature used by known-finding matchers
}

// Clone deep-copies a scenario through JSON.
func (s *Scenario) Clone() *Scenario {
	b, err := json.Marshal(s)
	if err != nil {
		panic(err)
	}
	var c Scenario
	if err := json.Unmarshal(b, &c); err != nil {
		panic(err)
	}
	return &c
}

// WriteReplay stores the scenario under dir/<property>/<sha>.json and returns the path.
func WriteReplay(dir string, s *Scenario) (string, error) {
	b, err := json.MarshalIndent(s, "", " ")
	if err != nil {
		return "", err
	}
	sum := sha256.Sum256(b)
	d := filepath.Join(dir, s.Property)
	if err := os.MkdirAll(d, 0o755); err != nil {
		return "", err
	}
	p := filepath.Join(d, hex.EncodeToString(sum[:8])+".json")
	return p, os.WriteFile(p, b, 0o644)
}

// ReadReplay loads a scenario file.
func ReadReplay(path string) (*Scenario, error) {
	b, err := os.ReadFile(path)
	if err != nil {
		return nil, err
	}
	var s Scenario
	if err := json.Unmarshal(b, &s); err != nil {
		return nil, err
	}
	return &s, nil
}
