package core

import (
	"encoding/json"
	"sort"
)

// Stats accumulates what a batch of runs covered. Workers emit one Stats each; the driver merges.
type Stats struct {
	Evaluations int64            `json:"evaluations"`
	NonTrivial  []uint64         `json:"nontrivial"` // fingerprints of runs that are non-trivial by the property's rule
	Distinct    []uint64         `json:"distinct"`   // fingerprints of all runs (schedules / interleavings measure)
	Probes      map[string]int64 `json:"probes"`
	Faults      map[string]int64 `json:"faults"`
	Ends        map[string]int64 `json:"ends"`
	SimNs       int64            `json:"sim_ns"`
	Events      int64            `json:"events"`
	Samples     []json.RawMessage `json:"samples"`
	Harness     []string         `json:"harness_errors"`
	Found       []Found          `json:"found"`
	Shrunk      int64            `json:"shrink_candidates"`

	nt, ds map[uint64]struct{}
}

// Found is a violation together with the (minimised) scenario that shows it.
type Found struct {
	V        Violation `json:"violation"`
	Scenario *Scenario `json:"scenario"`
	Original int       `json:"original_run_index"`
}

func NewStats() *Stats {
	return &Stats{Probes: map[string]int64{}, Faults: map[string]int64{}, Ends: map[string]int64{},
		nt: map[uint64]struct{}{}, ds: map[uint64]struct{}{}}
}

func (s *Stats) AddNonTrivial(f uint64) { s.nt[f] = struct{}{} }
func (s *Stats) AddDistinct(f uint64)   { s.ds[f] = struct{}{} }

// AddSample keeps the first few samples.
func (s *Stats) AddSample(v interface{}, max int) {
	if len(s.Samples) >= max {
		return
	}
	b, err := json.Marshal(v)
	if err == nil {
		s.Samples = append(s.Samples, b)
	}
}

// Seal converts the private sets into sorted slices for serialisation.
func (s *Stats) Seal() {
	s.NonTrivial = keys(s.nt)
	s.Distinct = keys(s.ds)
}

func keys(m map[uint64]struct{}) []uint64 {
	out := make([]uint64, 0, len(m))
	for k := range m {
		out = append(out, k)
	}
	sort.Slice(out, func(i, j int) bool { return out[i] < out[j] })
	return out
}

// Merge folds another (sealed) Stats into this one.
func (s *Stats) Merge(o *Stats) {
	s.Evaluations += o.Evaluations
	s.SimNs += o.SimNs
	s.Events += o.Events
	s.Shrunk += o.Shrunk
	for _, f := range o.NonTrivial {
		s.nt[f] = struct{}{}
	}
	for _, f := range o.Distinct {
		s.ds[f] = struct{}{}
	}
	for k, v := range o.Probes {
		s.Probes[k] += v
	}
	for k, v := range o.Faults {
		s.Faults[k] += v
	}
	for k, v := range o.Ends {
		s.Ends[k] += v
	}
	for _, smp := range o.Samples {
		if len(s.Samples) < 4 {
			s.Samples = append(s.Samples, smp)
		}
	}
	s.Harness = append(s.Harness, o.Harness...)
	s.Found = append(s.Found, o.Found...)
}
