// Package core holds what every simulation shares: the PRNG, scenario files, statistics,
// evidence and known-finding handling.
package core

// Rand is a small deterministic PRNG (SplitMix64). One Rand, seeded from the run seed, is the only
// source of choices of a run; logging and counting never draw from it.
type Rand struct{ s uint64 }

func NewRand(seed uint64) *Rand { return &Rand{s: seed} }

// Mix derives a sub-seed from a seed and labels (SplitMix64 finaliser over an FNV-style fold).
func Mix(seed uint64, labels ...uint64) uint64 {
	x := seed
	for _, l := range labels {
		x ^= l + 0x9e3779b97f4a7c15 + (x << 6) + (x >> 2)
		x = fin(x)
	}
	return fin(x)
}

// HashStr folds a string into a label.
func HashStr(s string) uint64 {
	h := uint64(1469598103934665603)
	for i := 0; i < len(s); i++ {
		h ^= uint64(s[i])
		h *= 1099511628211
	}
	return h
}

func fin(z uint64) uint64 {
	z = (z ^ (z >> 30)) * 0xbf58476d1ce4e5b9
	z = (z ^ (z >> 27)) * 0x94d049bb133111eb
	return z ^ (z >> 31)
}

func (r *Rand) Uint64() uint64 {
	r.s += 0x9e3779b97f4a7c15
	return fin(r.s)
}

// Intn returns a value in [0,n). n must be > 0.
func (r *Rand) Intn(n int) int {
	if n <= 0 {
		panic("Rand.Intn: n <= 0")
	}
	return int(r.Uint64() % uint64(n))
}

// Range returns a value in [lo,hi].
func (r *Rand) Range(lo, hi int) int { return lo + r.Intn(hi-lo+1) }

// Chance is true with probability num/den.
func (r *Rand) Chance(num, den int) bool { return r.Intn(den) < num }

// Perm returns a random permutation of 0..n-1.
func (r *Rand) Perm(n int) []int {
	p := make([]int, n)
	for i := range p {
		p[i] = i
	}
	for i := n - 1; i > 0; i-- {
		j := r.Intn(i + 1)
		p[i], p[j] = p[j], p[i]
	}
	return p
}

// PickStr picks one of the strings.
func (r *Rand) PickStr(xs ...string) string { return xs[r.Intn(len(xs))] }

// PickInt64 picks one of the values.
func (r *Rand) PickInt64(xs ...int64) int64 { return xs[r.Intn(len(xs))] }

// Fork returns an independent generator derived from this one and a label.
func (r *Rand) Fork(label string) *Rand { return NewRand(Mix(r.Uint64(), HashStr(label))) }

// PickStr2F picks one of the float values.
func (r *Rand) PickStr2F(xs ...float64) float64 { return xs[r.Intn(len(xs))] }
