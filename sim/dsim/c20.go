package dsim

import (
	"bufio"
	"encoding/binary"
	"encoding/json"
	"fmt"
	"io"
	"os"
	"os/exec"
	"runtime"
	"runtime/debug"
	"strings"
	"sync"
	"time"

	"github.com/hyperjumptech/grule-rule-engine/ast"
	"github.com/hyperjumptech/grule-rule-engine/builder"
	"github.com/hyperjumptech/grule-rule-engine/pkg"

	"grulesim/sim/core"
)

// c20.go: the four loaders fed from a simulated disk whose stored bytes were damaged. Every load
// runs in a child process with a hard address-space limit, so that an absurd allocation or a
// fatal runtime error kills the child (and is attributed to the input in flight), never the check.

// COp is one corruption of a stored image.
type COp struct {
	Kind string `json:"kind"` // flip | setlen | trunc | splice | zerotail | dup | insert | random
	Pos  int    `json:"pos"`
	Len  int    `json:"len,omitempty"`
	Val  uint64 `json:"val,omitempty"`
	Src  int    `json:"src,omitempty"`
	Text string `json:"text,omitempty"`
	Raw  []byte `json:"raw,omitempty"` // insert: bytes that are not valid UTF-8 (a JSON string would not carry them)
}

// Apply returns the damaged image.
func Apply(base []byte, ops []COp) []byte {
	d := append([]byte{}, base...)
	for _, op := range ops {
		if len(d) == 0 && op.Kind != "insert" && op.Kind != "random" {
			continue
		}
		pos := op.Pos
		if pos < 0 {
			pos = 0
		}
		if pos > len(d) {
			pos = len(d)
		}
		switch op.Kind {
		case "flip":
			if pos < len(d) {
				d[pos] ^= byte(1 << (op.Val % 8))
			}
		case "setlen": // overwrite an 8-byte little-endian field
			if pos+8 <= len(d) {
				binary.LittleEndian.PutUint64(d[pos:], op.Val)
			}
		case "trunc":
			d = d[:pos]
		case "splice": // copy Len bytes from Src over Pos
			for i := 0; i < op.Len; i++ {
				if op.Src+i < len(d) && pos+i < len(d) && op.Src+i >= 0 {
					d[pos+i] = d[op.Src+i]
				}
			}
		case "zerotail":
			for i := pos; i < len(d); i++ {
				d[i] = 0
			}
		case "dup": // duplicate the block [Pos, Pos+Len) in place (lost/duplicated block write)
			end := pos + op.Len
			if end > len(d) {
				end = len(d)
			}
			blk := append([]byte{}, d[pos:end]...)
			d = append(d[:end], append(blk, d[end:]...)...)
		case "insert":
			ins := []byte(op.Text)
			if len(op.Raw) > 0 {
				ins = op.Raw
			}
			d = append(d[:pos], append(append([]byte{}, ins...), d[pos:]...)...)
		case "random":
			r := core.NewRand(op.Val)
			d = make([]byte, op.Len)
			for i := range d {
				d[i] = byte(r.Uint64())
			}
		}
	}
	return d
}

// LoadReq is one load handed to the child.
type LoadReq struct {
	Kind        string `json:"kind"` // grl | jsonrule | jsonfact | grb
	Data        []byte `json:"data"`
	ChunkSeed   uint64 `json:"chunk_seed,omitempty"`
	MaxChunk    int    `json:"max_chunk,omitempty"`
	FailAt      int    `json:"fail_at,omitempty"`
	EOFWithData bool   `json:"eof_with_data,omitempty"`
}

// LoadResp is the child's answer.
type LoadResp struct {
	Outcome string `json:"outcome"` // ok | err | panic
	Msg     string `json:"msg,omitempty"`
	Frame   string `json:"frame,omitempty"` // top frame inside the repository (for panics)
	Alloc   uint64 `json:"alloc"`
	WallUs  int64  `json:"wall_us"`
}

const repoMod = "github.com/hyperjumptech/grule-rule-engine/"

func topRepoFrame() string {
	pcs := make([]uintptr, 64)
	n := runtime.Callers(3, pcs)
	frames := runtime.CallersFrames(pcs[:n])
	for {
		f, more := frames.Next()
		if strings.Contains(f.Function, repoMod) {
			return strings.TrimPrefix(f.Function, repoMod)
		}
		if !more {
			break
		}
	}
	return "?"
}

// DoLoad performs one load in this process (called in the child).
func DoLoad(req *LoadReq) (resp LoadResp) {
	var before, after runtime.MemStats
	runtime.ReadMemStats(&before)
	start := time.Now()
	defer func() {
		if p := recover(); p != nil {
			resp.Outcome = "panic"
			resp.Msg = fmt.Sprint(p)
			resp.Frame = topRepoFrame()
		}
		runtime.ReadMemStats(&after)
		resp.Alloc = after.TotalAlloc - before.TotalAlloc
		resp.WallUs = time.Since(start).Microseconds()
		if resp.Alloc > 256<<20 {
			// give the garbage back before answering, so that the watchdog can only ever fire
			// during the request that is in flight and never blames the next, innocent one
			debug.FreeOSMemory()
		}
	}()
	rd := &Reader{Image: req.Data, ChunkSeed: req.ChunkSeed, MaxChunk: req.MaxChunk, FailAt: req.FailAt, EOFWithData: req.EOFWithData}
	var err error
	switch req.Kind {
	case "grl":
		lib := ast.NewKnowledgeLibrary()
		err = builder.NewRuleBuilder(lib).BuildRuleFromResource("KB", "1", pkg.NewReaderResource(rd))
		if err != nil {
			// the loader must also survive what a rejected input leaves behind: a further, valid
			// text offered to the same knowledge base returns a value or an error like any other
			_ = builder.NewRuleBuilder(lib).BuildRuleFromResource("KB", "1", pkg.NewBytesResource([]byte(followUpGRL)))
		}
	case "jsonrule":
		var res pkg.Resource
		res, err = pkg.NewJSONResourceFromResource(pkg.NewReaderResource(rd))
		if err == nil {
			lib := ast.NewKnowledgeLibrary()
			err = builder.NewRuleBuilder(lib).BuildRuleFromResource("KB", "1", res)
		}
	case "jsonfact":
		var data []byte
		data, err = io.ReadAll(rd)
		if err == nil {
			dc := ast.NewDataContext()
			err = dc.AddJSON("J", data)
		}
	case "grb":
		lib := ast.NewKnowledgeLibrary()
		_, err = lib.LoadKnowledgeBaseFromReader(rd, true)
	default:
		err = fmt.Errorf("unknown loader kind %q", req.Kind)
	}
	if err != nil {
		resp.Outcome = "err"
		resp.Msg = err.Error()
		if len(resp.Msg) > 200 {
			resp.Msg = resp.Msg[:200]
		}
	} else {
		resp.Outcome = "ok"
	}
	return resp
}

const followUpGRL = `rule FollowUp "loaded after a rejected text" salience 1 { when F.I == 1 then F.I = 2; Retract("FollowUp"); }`

// ChildMain is the loop of the loader child: length-prefixed JSON requests on stdin, one JSON
// line per answer on stdout.
func ChildMain() int {
	// (RLIMIT_AS makes the Go runtime crawl and die for unrelated reasons, so the limit is enforced by
	// a watchdog on the runtime's own accounting: a request that grows the heap beyond 3 GiB ends
	// the child with exit code 77, which the parent attributes to the input in flight.)
	var mu sync.Mutex
	inFlight := false
	parent := os.Getppid()
	go func() {
		for {
			time.Sleep(25 * time.Millisecond)
			if os.Getppid() != parent {
				os.Exit(3) // the worker is gone (killed by a watchdog or by the user): do not spin on as an orphan
			}
			var ms runtime.MemStats
			runtime.ReadMemStats(&ms)
			if ms.HeapAlloc > 3<<30 || ms.Sys > 64<<30 {
				mu.Lock()
				if inFlight { // only ever blame the request in flight: the lock keeps its answer from leaving
					fmt.Fprintf(os.Stderr, "c20child: heap %d MiB, sys %d MiB: giving up\n", ms.HeapAlloc>>20, ms.Sys>>20)
					os.Exit(77)
				}
				mu.Unlock()
			}
		}
	}()
	in := bufio.NewReader(os.Stdin)
	out := bufio.NewWriter(os.Stdout)
	for {
		var n uint32
		if err := binary.Read(in, binary.LittleEndian, &n); err != nil {
			return 0
		}
		buf := make([]byte, n)
		if _, err := io.ReadFull(in, buf); err != nil {
			return 2
		}
		var req LoadReq
		if err := json.Unmarshal(buf, &req); err != nil {
			return 2
		}
		mu.Lock()
		inFlight = true
		mu.Unlock()
		resp := DoLoad(&req)
		mu.Lock()
		inFlight = false
		mu.Unlock()
		b, _ := json.Marshal(resp)
		out.Write(b)
		out.WriteByte('\n')
		out.Flush()
	}
}

// Child is the parent's handle on a loader child process.
type Child struct {
	cmd   *exec.Cmd
	in    io.WriteCloser
	out   *bufio.Reader
	lines chan string
	Tail  *tailBuf
}

type tailBuf struct{ b []byte }

func (t *tailBuf) String() string { return string(t.b) }

func (t *tailBuf) Write(p []byte) (int, error) {
	t.b = append(t.b, p...)
	if len(t.b) > 8192 {
		t.b = t.b[len(t.b)-8192:]
	}
	return len(p), nil
}

// StartChild launches `<exe> c20child`.
func StartChild(exe string) (*Child, error) {
	cmd := exec.Command(exe, "c20child")
	cmd.Env = append(os.Environ(), "GOMAXPROCS=2", "GOGC=200")
	in, err := cmd.StdinPipe()
	if err != nil {
		return nil, err
	}
	out, err := cmd.StdoutPipe()
	if err != nil {
		return nil, err
	}
	tail := &tailBuf{}
	cmd.Stderr = tail
	if err := cmd.Start(); err != nil {
		return nil, err
	}
	c := &Child{cmd: cmd, in: in, out: bufio.NewReaderSize(out, 1<<16), lines: make(chan string, 1), Tail: tail}
	go func() {
		for {
			l, err := c.out.ReadString('\n')
			if err != nil {
				close(c.lines)
				return
			}
			c.lines <- l
		}
	}()
	return c, nil
}

// Kill ends the child.
func (c *Child) Kill() {
	if c == nil || c.cmd == nil {
		return
	}
	_ = c.in.Close()
	_ = c.cmd.Process.Kill()
	_, _ = c.cmd.Process.Wait()
}

// Do sends one request. died is true when the child terminated, hung when it did not answer in time.
func (c *Child) Do(req *LoadReq, timeout time.Duration) (resp *LoadResp, died, hung bool) {
	b, _ := json.Marshal(req)
	var hdr [4]byte
	binary.LittleEndian.PutUint32(hdr[:], uint32(len(b)))
	if _, err := c.in.Write(append(hdr[:], b...)); err != nil {
		return nil, true, false
	}
	select {
	case l, ok := <-c.lines:
		if !ok {
			return nil, true, false
		}
		var r LoadResp
		if err := json.Unmarshal([]byte(l), &r); err != nil {
			return nil, true, false
		}
		return &r, false, false
	case <-time.After(timeout):
		return nil, false, true
	}
}

// Bound is the allocation bound for an input of n bytes: far above anything a valid input of
// that size needs (calibrated: the ANTLR front end allocates about 2.6 MB + 6 KiB per input byte),
// orders of magnitude below a length-field blow-up.
func Bound(n int) uint64 { return 64<<20 + uint64(n)*64<<10 }
