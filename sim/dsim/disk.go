// Package dsim is "Sim D": stores and loads go through a simulated disk whose writers fail at a
// chosen write, whose images can be cut at any byte or corrupted, and whose readers chunk, end
// with (n, io.EOF) or fail at a chosen read.
package dsim

import (
	"errors"
	"io"

	"grulesim/sim/core"
)

// ErrDisk is the error a simulated device returns.
var ErrDisk = errors.New("simulated disk error")

// Writer accepts bytes into an image; the FailAt-th Write call (1-based) accepts only Accept
// bytes and returns ErrDisk; every later call fails too (a broken device stays broken).
type Writer struct {
	Image  []byte
	Bounds []int // image length after each successful Write
	Calls  int
	FailAt int
	Accept int // 0: nothing, 1: half, 2: all but one byte
	// Transient: only the FailAt-th call fails, the device then works again (interrupted call,
	// momentarily full disk). Otherwise every later call fails too.
	Transient bool
	Failed    bool
	broken    bool
}

func (w *Writer) Write(p []byte) (int, error) {
	w.Calls++
	if w.broken {
		return 0, ErrDisk
	}
	if w.FailAt > 0 && w.Calls == w.FailAt {
		w.Failed = true
		w.broken = !w.Transient
		n := 0
		switch w.Accept {
		case 1:
			n = len(p) / 2
		case 2:
			if len(p) > 0 {
				n = len(p) - 1
			}
		}
		w.Image = append(w.Image, p[:n]...)
		return n, ErrDisk
	}
	w.Image = append(w.Image, p...)
	w.Bounds = append(w.Bounds, len(w.Image))
	return len(p), nil
}

// Reader serves an image in chunks decided by a seed; FailAt-th Read call returns ErrDisk;
// EOFWithData makes the last chunk arrive together with io.EOF (legal reader behaviour).
type Reader struct {
	Image       []byte
	pos         int
	Calls       int
	ChunkSeed   uint64 // 0: as much as asked
	MaxChunk    int
	FailAt      int
	EOFWithData bool
}

func (r *Reader) Read(p []byte) (int, error) {
	r.Calls++
	if r.FailAt > 0 && r.Calls >= r.FailAt {
		return 0, ErrDisk
	}
	if len(p) == 0 {
		return 0, nil
	}
	if r.pos >= len(r.Image) {
		return 0, io.EOF
	}
	n := len(p)
	if r.ChunkSeed != 0 {
		mc := r.MaxChunk
		if mc <= 0 {
			mc = 7
		}
		c := int(core.Mix(r.ChunkSeed, uint64(r.Calls))%uint64(mc)) + 1
		if c < n {
			n = c
		}
	}
	if n > len(r.Image)-r.pos {
		n = len(r.Image) - r.pos
	}
	copy(p, r.Image[r.pos:r.pos+n])
	r.pos += n
	if r.EOFWithData && r.pos == len(r.Image) {
		return n, io.EOF
	}
	return n, nil
}
