package dsim

import (
	"encoding/json"
	"fmt"
	"sort"
	"strings"

	"github.com/hyperjumptech/grule-rule-engine/ast"
	"github.com/hyperjumptech/grule-rule-engine/pkg/simhook"

	"grulesim/sim/core"
	"grulesim/sim/esim"
	"grulesim/sim/grl"
)

// ProbeCase is one fact set + schedule used to compare the behaviour of two knowledge bases.
type ProbeCase struct {
	Facts    *grl.Facts `json:"facts"`
	Schedule [][]int    `json:"schedule,omitempty"`
	MaxCycle uint64     `json:"max_cycle"`
}

// Extra is the Sim D payload of a scenario.
type Extra struct {
	OrderSeed uint64      `json:"order_seed"` // order in which catalog entries are written (N6)
	Probes    []ProbeCase `json:"probes"`
	// Op selects a single operation for replay; empty means the full enumeration.
	Op          string `json:"op,omitempty"` // roundtrip | wfail | trunc | chunk | rerr | overwrite
	K           int    `json:"k,omitempty"`
	Accept      int    `json:"accept,omitempty"`
	Transient   bool   `json:"transient,omitempty"`
	Off         int    `json:"off,omitempty"`
	ChunkSeed   uint64 `json:"chunk_seed,omitempty"`
	MaxChunk    int    `json:"max_chunk,omitempty"`
	EOFWithData bool   `json:"eof_with_data,omitempty"`
	Removed     []string `json:"removed,omitempty"`
}

// Hit is a violation together with the single operation that shows it.
type Hit struct {
	V  core.Violation
	Ex Extra
}

func installOrder(seed uint64) {
	simhook.Order = func(site string, keys []string) []string {
		if !strings.HasPrefix(site, "cat.write.") || seed == 0 {
			return keys
		}
		r := core.NewRand(core.Mix(seed, core.HashStr(site), uint64(len(keys))))
		out := make([]string, len(keys))
		for i, j := range r.Perm(len(keys)) {
			out[i] = keys[j]
		}
		return out
	}
	simhook.Step = nil
}

type metaRow struct {
	desc    string
	sal     int
	deleted bool
}

func metaOf(kb *ast.KnowledgeBase) map[string]metaRow {
	m := map[string]metaRow{}
	for k, re := range kb.RuleEntries {
		name := re.RuleName
		if re.Deleted {
			name = "<tombstone>" // tombstone names are identifiers, compare them as a class
			k = name + k
		}
		m[k+"|"+name] = metaRow{re.RuleDescription, re.Salience, re.Deleted}
	}
	return m
}

func metaDiff(a, b *ast.KnowledgeBase) string {
	if a.Name != b.Name || a.Version != b.Version {
		return fmt.Sprintf("name/version %s:%s vs %s:%s", a.Name, a.Version, b.Name, b.Version)
	}
	ma, mb := metaOf(a), metaOf(b)
	var ks []string
	for k := range ma {
		ks = append(ks, k)
	}
	for k := range mb {
		if _, ok := ma[k]; !ok {
			ks = append(ks, k)
		}
	}
	sort.Strings(ks)
	for _, k := range ks {
		ra, oka := ma[k]
		rb, okb := mb[k]
		if !oka || !okb {
			return fmt.Sprintf("rule %s present=%v vs present=%v", k, oka, okb)
		}
		if ra != rb {
			return fmt.Sprintf("rule %s: %+v vs %+v", k, ra, rb)
		}
	}
	if a.GetSnapshot() != b.GetSnapshot() {
		return "knowledge-base snapshots differ"
	}
	return ""
}

type behaviour struct {
	finger uint64
	final  string
	err    string
	viol   string
	log    string
}

func (b behaviour) same(o behaviour) bool {
	return b.finger == o.finger && b.final == o.final && b.err == o.err && b.viol == o.viol
}

func firstDiff(a, b string) string {
	la, lb := strings.Split(a, "\n"), strings.Split(b, "\n")
	for i := 0; i < len(la) || i < len(lb); i++ {
		var x, y string
		if i < len(la) {
			x = la[i]
		}
		if i < len(lb) {
			y = lb[i]
		}
		if x != y {
			return fmt.Sprintf("first differing trace line (of the last 60):\n    stored: %s\n    loaded: %s", x, y)
		}
	}
	return ""
}

func behave(sc *core.Scenario, lib *ast.KnowledgeLibrary, pc ProbeCase, ex *Extra) (behaviour, error) {
	kb, err := lib.NewKnowledgeBaseInstance(esim.KBName, esim.KBVersion)
	if err != nil {
		return behaviour{}, err
	}
	p := &core.Scenario{Property: sc.Property, Sim: "E", Program: sc.Program, Facts: pc.Facts, Schedule: pc.Schedule,
		Removed: ex.Removed, Knobs: core.Knobs{MaxCycle: pc.MaxCycle, Listeners: 1, Mode: "execute"}, LatSeed: 1}
	res := &esim.Result{Probes: map[string]int64{}, Faults: map[string]int{}, MethodCalls: map[string]int{}}
	esim.RunOn(p, kb, res)
	installOrder(ex.OrderSeed)
	if res.HarnessErr != "" {
		return behaviour{}, fmt.Errorf("harness: %s", res.HarnessErr)
	}
	b := behaviour{finger: res.Finger, final: res.FinalReal, log: strings.Join(res.Log, "\n")}
	if res.Err != nil {
		b.err = res.Err.Error()
	}
	var vs []string
	for _, v := range res.Violations {
		vs = append(vs, v.Oracle)
	}
	b.viol = strings.Join(vs, ",")
	return b, nil
}

func load(image []byte, r *Reader, overwrite bool, lib *ast.KnowledgeLibrary) (*ast.KnowledgeBase, error) {
	if r == nil {
		r = &Reader{}
	}
	r.Image = image
	return lib.LoadKnowledgeBaseFromReader(r, overwrite)
}

// Explore runs the C12 operations on one scenario. With ex.Op empty it enumerates everything
// (bounded by tier); otherwise only the selected operation. It returns hits and records stats.
func Explore(sc *core.Scenario, ex *Extra, tier string, st *core.Stats) ([]Hit, string) {
	defer func() { simhook.Order, simhook.Step, simhook.ID = nil, nil, nil }()
	esim.InstallIDs("n")
	installOrder(ex.OrderSeed)
	text := grl.PrintProgram(sc.Program)
	lib, err := esim.BuildLibrary(text)
	if err != nil {
		return nil, fmt.Sprintf("generated program rejected by the builder: %v\n%s", err, text)
	}
	for _, n := range ex.Removed {
		lib.RemoveRuleEntry(n, esim.KBName, esim.KBVersion)
	}
	var hits []Hit
	seen := map[string]bool{}
	hit := func(oracle, msg string, e Extra) {
		if seen[oracle] {
			return
		}
		seen[oracle] = true
		e.OrderSeed, e.Probes, e.Removed = ex.OrderSeed, ex.Probes, ex.Removed
		hits = append(hits, Hit{V: core.Violation{Oracle: oracle, Property: "C12", Message: msg}, Ex: e})
	}
	progHash := core.HashStr(text)
	count := func(op string, pos int) {
		st.Evaluations++
		st.AddNonTrivial(core.Mix(progHash, core.HashStr(op), ex.OrderSeed)) // positions are counted in fault_kinds_fired
		_ = pos
		st.Faults[op]++
	}
	want := func(op string) bool { return ex.Op == "" || ex.Op == op || ex.Op == "enum:"+op }

	// clean store
	w := &Writer{}
	if err := lib.StoreKnowledgeBaseToWriter(w, esim.KBName, esim.KBVersion); err != nil {
		hit("C12.clean-store-failed", fmt.Sprintf("store to a healthy writer failed: %v", err), Extra{Op: "roundtrip"})
		return hits, ""
	}
	image, bounds, W := w.Image, w.Bounds, w.Calls
	st.AddDistinct(core.HashStr(string(image))) // the stored bytes themselves are a function of the scenario
	st.Probes["image-bytes"] += int64(len(image))
	st.Probes["store-write-calls"] += int64(W)
	blueprint := lib.Library[ast.GetKnowledgeBaseKey(esim.KBName, esim.KBVersion)]

	// clean load
	lib2 := ast.NewKnowledgeLibrary()
	cr := &Reader{}
	kb2, err := load(image, cr, true, lib2)
	count("roundtrip", 0)
	if err != nil || kb2 == nil {
		hit("C12.clean-load-failed", fmt.Sprintf("load of a complete stream failed: %v", err), Extra{Op: "roundtrip"})
		return hits, ""
	}
	readCalls := cr.Calls
	if want("roundtrip") {
		if d := metaDiff(blueprint, kb2); d != "" {
			hit("C12.meta-mismatch", "loaded knowledge base differs from the stored one: "+d, Extra{Op: "roundtrip"})
		}
		// behavioural equivalence, also after storing and loading again
		w2 := &Writer{}
		var lib3 *ast.KnowledgeLibrary
		if err := lib2.StoreKnowledgeBaseToWriter(w2, esim.KBName, esim.KBVersion); err != nil {
			hit("C12.restore-failed", fmt.Sprintf("storing the loaded knowledge base failed: %v", err), Extra{Op: "roundtrip"})
		} else {
			lib3 = ast.NewKnowledgeLibrary()
			if _, err := load(w2.Image, nil, true, lib3); err != nil {
				hit("C12.reload-failed", fmt.Sprintf("second load failed: %v", err), Extra{Op: "roundtrip"})
				lib3 = nil
			}
		}
		for i, pc := range ex.Probes {
			a, errA := behave(sc, lib, pc, ex)
			b, errB := behave(sc, lib2, pc, ex)
			count("behaviour", i)
			if errA != nil {
				return hits, "original knowledge base cannot be instantiated: " + errA.Error()
			}
			if errB != nil {
				hit("C12.loaded-not-instantiable", fmt.Sprintf("loaded knowledge base cannot be instantiated: %v", errB), Extra{Op: "roundtrip"})
				break
			}
			if !a.same(b) {
				hit("C12.behaviour-differs", fmt.Sprintf("probe %d: loaded instance behaves differently from the stored one:\n  stored: err=%q violations=%q\n  loaded: err=%q violations=%q\n  final facts equal: %v, traces equal: %v\n  %s", i, a.err, a.viol, b.err, b.viol, a.final == b.final, a.finger == b.finger, firstDiff(a.log, b.log)), Extra{Op: "roundtrip"})
			}
			if lib3 != nil {
				c, errC := behave(sc, lib3, pc, ex)
				if errC != nil {
					hit("C12.reloaded-not-instantiable", fmt.Sprintf("twice-loaded knowledge base cannot be instantiated: %v", errC), Extra{Op: "roundtrip"})
				} else if !a.same(c) {
					hit("C12.reload-differs", fmt.Sprintf("probe %d: knowledge base stored and loaded twice behaves differently", i), Extra{Op: "roundtrip"})
				}
			}
			if a.finger != 0 {
				st.Probes["behaviour-probes"]++
			}
		}
	}

	// a second store after a library-level removal must describe the knowledge base as it is NOW
	if want("roundtrip") && len(ex.Removed) == 0 && len(sc.Program.Rules) > 1 {
		victim := sc.Program.Rules[int(progHash%uint64(len(sc.Program.Rules)))].Name
		lib.RemoveRuleEntry(victim, esim.KBName, esim.KBVersion)
		w3 := &Writer{}
		if err := lib.StoreKnowledgeBaseToWriter(w3, esim.KBName, esim.KBVersion); err != nil {
			hit("C12.store-after-remove-failed", fmt.Sprintf("store after removing %s failed: %v", victim, err), Extra{Op: "roundtrip"})
		} else {
			l4 := ast.NewKnowledgeLibrary()
			if kb4, err := load(w3.Image, nil, true, l4); err != nil {
				hit("C12.store-after-remove-failed", fmt.Sprintf("the stream stored after removing %s does not load: %v", victim, err), Extra{Op: "roundtrip"})
			} else if d := metaDiff(lib.Library[ast.GetKnowledgeBaseKey(esim.KBName, esim.KBVersion)], kb4); d != "" {
				hit("C12.stale-stream-after-remove", fmt.Sprintf("stored, removed %s at library level, stored again, loaded: the loaded knowledge base is not the current one: %s", victim, d), Extra{Op: "roundtrip"})
			} else if len(ex.Probes) > 0 {
				ex2 := *ex
				ex2.Removed = []string{victim}
				a, errA := behave(sc, lib, ex.Probes[0], &ex2)
				b, errB := behave(sc, l4, ex.Probes[0], &ex2)
				if errA == nil && (errB != nil || !a.same(b)) {
					hit("C12.stale-stream-after-remove", fmt.Sprintf("stored, removed %s at library level, stored again, loaded: the loaded knowledge base behaves differently from the current one", victim), Extra{Op: "roundtrip"})
				}
			}
			count("store-after-remove", 0)
		}
		// the remaining operations work on the knowledge base without that rule
		ex.Removed = []string{victim}
		w = &Writer{}
		if err := lib.StoreKnowledgeBaseToWriter(w, esim.KBName, esim.KBVersion); err == nil {
			image, bounds, W = w.Image, w.Bounds, w.Calls
			blueprint = lib.Library[ast.GetKnowledgeBaseKey(esim.KBName, esim.KBVersion)]
		}
	}

	// failing writer: every write index
	if want("wfail") {
		ks := []int{}
		if ex.Op == "wfail" {
			ks = []int{ex.K}
		} else {
			for k := 1; k <= W; k++ {
				ks = append(ks, k)
			}
		}
		for _, k := range ks {
			for _, transient := range []bool{false, true} {
				acc := k % 3
				if ex.Op == "wfail" {
					acc = ex.Accept
					if transient != ex.Transient {
						continue
					}
				}
				fw := &Writer{FailAt: k, Accept: acc, Transient: transient}
				err := lib.StoreKnowledgeBaseToWriter(fw, esim.KBName, esim.KBVersion)
				op := "wfail"
				if transient {
					op = "wfail-transient"
				}
				count(op, k)
				if fw.Failed && err == nil {
					hit("C12.store-error-swallowed", fmt.Sprintf("write call %d of %d failed (accepting mode %d, transient %v) but StoreKnowledgeBaseToWriter returned nil", k, W, acc, transient), Extra{Op: "wfail", K: k, Accept: acc, Transient: transient})
				}
			}
		}
		st.Probes["wfail.all-indices"]++
	}

	// truncation
	if want("trunc") {
		var offs []int
		exhaustive := false
		if ex.Op == "trunc" {
			offs = []int{ex.Off}
		} else {
			offs = append(offs, 0)
			for _, b := range bounds {
				if b < len(image) {
					offs = append(offs, b)
				}
			}
			if tier == "thorough" && len(image) <= 60000 {
				exhaustive = true
				offs = offs[:0]
				for o := 0; o < len(image); o++ {
					offs = append(offs, o)
				}
			} else {
				r := core.NewRand(core.Mix(ex.OrderSeed, progHash, 0x7c))
				for i := 0; i < 256; i++ {
					offs = append(offs, r.Intn(len(image)))
				}
			}
		}
		for _, off := range offs {
			if off >= len(image) {
				continue
			}
			l := ast.NewKnowledgeLibrary()
			kb, err := load(image[:off], nil, true, l)
			count("trunc", off)
			if err == nil {
				names := 0
				if kb != nil {
					names = len(kb.RuleEntries)
				}
				hit("C12.truncated-loads", fmt.Sprintf("stream of %d bytes cut at byte %d loads without error (%d rule entries)", len(image), off, names), Extra{Op: "trunc", Off: off})
			} else if len(l.Library) != 0 {
				hit("C12.library-changed-on-error", fmt.Sprintf("load of a stream cut at byte %d failed but left %d entr(y/ies) in the library", off, len(l.Library)), Extra{Op: "trunc", Off: off})
			}
		}
		if exhaustive {
			st.Probes["trunc.every-byte"]++
		} else {
			st.Probes["trunc.boundaries+256"]++
		}
	}

	// legal reader behaviours
	if want("chunk") {
		type cfg struct {
			seed uint64
			mc   int
			eof  bool
		}
		var cfgs []cfg
		if ex.Op == "chunk" {
			cfgs = []cfg{{ex.ChunkSeed, ex.MaxChunk, ex.EOFWithData}}
		} else {
			cfgs = []cfg{{1, 1, false}, {core.Mix(ex.OrderSeed, 3), 3, true}, {core.Mix(ex.OrderSeed, 7), 7, false}, {core.Mix(ex.OrderSeed, 64), 64, true}, {0, 0, true}}
		}
		for i, c := range cfgs {
			l := ast.NewKnowledgeLibrary()
			kb, err := load(image, &Reader{ChunkSeed: c.seed, MaxChunk: c.mc, EOFWithData: c.eof}, true, l)
			count("chunk", i)
			e := Extra{Op: "chunk", ChunkSeed: c.seed, MaxChunk: c.mc, EOFWithData: c.eof}
			if err != nil {
				hit("C12.chunking-breaks-load", fmt.Sprintf("complete stream delivered in chunks (max %d, eof-with-data %v) fails to load: %v", c.mc, c.eof, err), e)
				continue
			}
			if d := metaDiff(blueprint, kb); d != "" {
				hit("C12.chunking-changes-result", "stream delivered in chunks loads differently: "+d, e)
				continue
			}
			if len(ex.Probes) > 0 {
				a, errA := behave(sc, lib, ex.Probes[0], ex)
				b, errB := behave(sc, l, ex.Probes[0], ex)
				if errA == nil && (errB != nil || !a.same(b)) {
					hit("C12.chunking-changes-result", "stream delivered in chunks yields a knowledge base that behaves differently", e)
				}
			}
		}
	}

	// failing reader
	if want("rerr") {
		var ks []int
		if ex.Op == "rerr" {
			ks = []int{ex.K}
		} else if tier == "thorough" {
			for k := 1; k <= readCalls; k++ {
				ks = append(ks, k)
			}
		} else {
			r := core.NewRand(core.Mix(ex.OrderSeed, progHash, 0x4e))
			ks = append(ks, 1, readCalls)
			for i := 0; i < 64; i++ {
				ks = append(ks, r.Range(1, readCalls))
			}
		}
		for _, k := range ks {
			l := ast.NewKnowledgeLibrary()
			_, err := load(image, &Reader{FailAt: k}, true, l)
			count("rerr", k)
			if err == nil {
				hit("C12.read-error-swallowed", fmt.Sprintf("read call %d of %d failed but the load returned no error", k, readCalls), Extra{Op: "rerr", K: k})
			} else if len(l.Library) != 0 {
				hit("C12.library-changed-on-error", fmt.Sprintf("load failed at read call %d but left an entry in the library", k), Extra{Op: "rerr", K: k})
			}
		}
	}

	// overwrite flag
	if want("overwrite") {
		other, err := esim.BuildLibrary("rule Existing \"kept\" salience 3 { when F.I == 0 then F.I = 1; Retract(\"Existing\"); }")
		if err != nil {
			return hits, "overwrite: " + err.Error()
		}
		key := ast.GetKnowledgeBaseKey(esim.KBName, esim.KBVersion)
		before := other.Library[key]
		snap := before.GetSnapshot()
		kb, err := load(image, nil, false, other)
		count("overwrite", 0)
		if err == nil || kb != nil {
			hit("C12.overwrite-false-no-error", "loading with overwrite=false onto an existing name/version returned no error", Extra{Op: "overwrite"})
		}
		if other.Library[key] != before || before.GetSnapshot() != snap {
			hit("C12.overwrite-false-clobbered", "loading with overwrite=false replaced or changed the existing knowledge base", Extra{Op: "overwrite"})
		}
		if _, err := other.NewKnowledgeBaseInstance(esim.KBName, esim.KBVersion); err != nil {
			hit("C12.overwrite-false-clobbered", fmt.Sprintf("existing knowledge base can no longer be instantiated: %v", err), Extra{Op: "overwrite"})
		}
		fresh := ast.NewKnowledgeLibrary()
		if _, err := load(image, nil, false, fresh); err != nil {
			hit("C12.overwrite-false-fresh-failed", fmt.Sprintf("loading with overwrite=false into an empty library failed: %v", err), Extra{Op: "overwrite"})
		}
		count("overwrite", 1)
		if kb2, err := load(image, nil, true, other); err != nil || kb2 == nil || other.Library[key] == before {
			hit("C12.overwrite-true-ignored", fmt.Sprintf("loading with overwrite=true did not replace the existing entry (err=%v)", err), Extra{Op: "overwrite"})
		}
		count("overwrite", 2)
		// removing a rule from a name/version the library does not hold creates nothing
		absent := ast.NewKnowledgeLibrary()
		absent.RemoveRuleEntry("Nobody", esim.KBName, esim.KBVersion)
		if len(absent.Library) != 0 {
			hit("C12.library-changed-by-remove", "RemoveRuleEntry on a name/version the library does not hold left an entry behind", Extra{Op: "overwrite"})
		}
		if _, err := load(image, nil, false, absent); err != nil {
			hit("C12.overwrite-false-fresh-failed", fmt.Sprintf("loading with overwrite=false into a library that never held the name/version failed: %v", err), Extra{Op: "overwrite"})
		}
		// two stores back to back in ONE stream, loaded one after the other from ONE reader
		two := ast.NewKnowledgeLibrary()
		rd := &Reader{Image: append(append([]byte{}, image...), image...)}
		if _, err := two.LoadKnowledgeBaseFromReader(rd, true); err != nil {
			hit("C12.clean-load-failed", fmt.Sprintf("first of two stores in one stream does not load: %v", err), Extra{Op: "overwrite"})
		} else if _, err := two.LoadKnowledgeBaseFromReader(rd, true); err != nil {
			hit("C12.second-store-in-stream-lost", fmt.Sprintf("the second of two stores written back to back into one stream does not load from the same reader (the first load consumed more than its own bytes?): %v", err), Extra{Op: "overwrite"})
		}
		count("overwrite", 4)
		// an existing entry WITHOUT rules (created by GetKnowledgeBase for someone about to build into it) is an
		// existing entry all the same
		empty := ast.NewKnowledgeLibrary()
		held := empty.GetKnowledgeBase(esim.KBName, esim.KBVersion)
		kb3, err := load(image, nil, false, empty)
		if err == nil || kb3 != nil {
			hit("C12.overwrite-false-no-error", "loading with overwrite=false onto an existing (rule-less) name/version returned no error", Extra{Op: "overwrite"})
		}
		if empty.Library[key] != held || len(held.RuleEntries) != 0 {
			hit("C12.overwrite-false-clobbered", "loading with overwrite=false replaced or filled the existing rule-less knowledge base", Extra{Op: "overwrite"})
		}
		count("overwrite", 3)
	}
	return hits, ""
}

// ExtraOf decodes the Sim D payload of a scenario.
func ExtraOf(sc *core.Scenario) (*Extra, error) {
	var ex Extra
	if len(sc.Extra) == 0 {
		return &ex, nil
	}
	if err := json.Unmarshal(sc.Extra, &ex); err != nil {
		return nil, err
	}
	return &ex, nil
}

// SetExtra encodes the payload into the scenario.
func SetExtra(sc *core.Scenario, ex *Extra) {
	b, _ := json.Marshal(ex)
	sc.Extra = b
}
