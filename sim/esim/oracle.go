package esim

import (
	"fmt"
	"sort"
	"strings"

	"github.com/hyperjumptech/grule-rule-engine/ast"

	"grulesim/sim/core"
	"grulesim/sim/grl"
)

// EModel is the engine-level reference model: rule set, retract set, completion flag and the
// memory-free fact model. It never chooses a rule to fire: it accepts the engine's choice iff
// that choice is legal, then applies that rule's actions (refinement check).
type EModel struct {
	sc     *core.Scenario
	rules  map[string]*grl.Rule
	order  []string
	m      *grl.Model
	before string

	removed   map[string]bool
	retracted map[string]bool
	complete  bool

	cycle        int
	firings      int
	begun        bool // a Begin callback arrived and its loop has not started yet
	truth        map[string]grl.Truth
	evalSeen     map[string]bool
	engCand      map[string]bool
	execInCycle  int
	condFault    map[string]bool
	faultCycle   int
	faultedRules map[string]bool

	retractCalls   []string // names passed to Retract so far in this call
	pending        string
	pendingRefused bool
	actFault       *faultRec
	actErrRule     string
	actErrSeen     bool

	// C13
	counted     map[string]string // "F.Cost" -> the single call text that uses it
	countedVars map[string][]*grl.Path
	epochCalls  map[string]int
	varTexts    map[string]bool // texts of all variables of the rule set (every path and every prefix of it)
}

func newEModel(sc *core.Scenario) *EModel {
	em := &EModel{sc: sc, rules: map[string]*grl.Rule{}, removed: map[string]bool{}, retracted: map[string]bool{},
		epochCalls: map[string]int{}, faultedRules: map[string]bool{}}
	for _, r := range sc.Program.Rules {
		em.rules[r.Name] = r
		em.order = append(em.order, r.Name)
	}
	for _, n := range sc.Removed {
		em.removed[n] = true
	}
	em.m = &grl.Model{S: grl.NewState(sc.Facts)}
	em.counted, em.countedVars = CountedCalls(sc.Program)
	em.varTexts = VariableTexts(sc.Program)
	return em
}

func (em *EModel) active(name string) bool {
	_, ok := em.rules[name]
	return ok && !em.removed[name] && !em.retracted[name]
}

func (em *EModel) activeNames() []string {
	var out []string
	for _, n := range em.order {
		if em.active(n) {
			out = append(out, n)
		}
	}
	return out
}

func (em *EModel) truthOf(name string) grl.Truth {
	if em.condFault[name] {
		return grl.Err
	}
	return em.truth[name]
}

func (em *EModel) computeTruth() {
	em.truth = map[string]grl.Truth{}
	for _, n := range em.activeNames() {
		em.truth[n] = em.m.Cond(em.rules[n])
	}
	em.m.Env = false // a condition that merely builds a long string is an evaluation error, nothing more
}

func (em *EModel) conflictSet() []string {
	var cs []string
	for _, n := range em.activeNames() {
		if em.truthOf(n) == grl.True {
			cs = append(cs, n)
		}
	}
	return cs
}

func (em *EModel) startCycle(r *run, cycle int) {
	if em.pending != "" {
		em.finishFiring(r)
	}
	if cycle != em.cycle+1 {
		r.violate("C06.cycle-number", fmt.Sprintf("cycle %d begins after cycle %d", cycle, em.cycle))
	}
	if em.cycle > 0 && em.execInCycle == 0 {
		r.violate("C06.cycle-after-quiescence", fmt.Sprintf("cycle %d begins although cycle %d fired nothing", cycle, em.cycle))
	}
	if em.complete {
		r.violate("C10.cycle-after-complete", fmt.Sprintf("cycle %d begins after Complete() was called", cycle))
	}
	if em.actErrSeen {
		r.violate("C14.cycle-after-action-error", fmt.Sprintf("cycle %d begins after an action of rule %s failed", cycle, em.actErrRule))
	}
	em.cycle = cycle
	if uint64(cycle) > r.sc.Knobs.MaxCycle+1 {
		r.abort("runaway", fmt.Sprintf("cycle %d begun with MaxCycle %d", cycle, r.sc.Knobs.MaxCycle))
		return
	}
	em.computeTruth()
	em.evalSeen = map[string]bool{}
	em.engCand = map[string]bool{}
	em.condFault = map[string]bool{}
	em.execInCycle = 0
	cs := em.conflictSet()
	if len(cs) >= 2 {
		r.res.probe("cycle.ge2-candidates")
		top, n := em.maxSal(cs)
		if n >= 2 {
			r.res.probe("cycle.tie-at-top")
		}
		if top < 0 {
			r.res.probe("cycle.negative-top")
		}
	}
}

func (em *EModel) maxSal(cs []string) (int64, int) {
	var top int64
	n := 0
	for i, c := range cs {
		s := em.rules[c].Sal()
		if i == 0 || s > top {
			top, n = s, 1
		} else if s == top {
			n++
		}
	}
	return top, n
}

func (em *EModel) onBegin(r *run, cycle uint64) {
	em.startCycle(r, int(cycle))
	em.begun = true
}

// onLoop: the engine's evaluation loop starts (Order hook).
func (em *EModel) onLoop(r *run) {
	if r.sc.Knobs.Listeners == 0 {
		em.startCycle(r, em.cycle+1)
		return
	}
	if !em.begun {
		r.violate("C06.missing-begin", fmt.Sprintf("evaluation loop %d started without a BeginCycle notification", r.loopIdx))
		em.startCycle(r, em.cycle+1)
	}
	em.begun = false
}

func (em *EModel) onEval(r *run, cycle uint64, re *ast.RuleEntry, cand bool) {
	name := re.RuleName
	if int(cycle) != em.cycle {
		r.violate("C06.eval-cycle-number", fmt.Sprintf("EvaluateRuleEntry(%s) reported cycle %d during cycle %d", name, cycle, em.cycle))
	}
	rule, known := em.rules[name]
	switch {
	case !known || em.removed[name]:
		r.violate("C06.eval-of-removed", fmt.Sprintf("EvaluateRuleEntry for %q which is not an active rule", name))
		if known || strings.HasPrefix(name, "Deleted_") { // a removed rule answers to its tombstone name
			r.violate("C16.removed-rule-evaluated", fmt.Sprintf("rule %s was evaluated in cycle %d although it had been removed from this instance", normName(name), em.cycle))
		}
		return
	case em.retracted[name]:
		r.violate("C10.eval-after-retract", fmt.Sprintf("rule %s was evaluated in cycle %d after it had been retracted", name, em.cycle))
		return
	}
	if em.evalSeen[name] {
		r.violate("C06.duplicate-eval", fmt.Sprintf("rule %s evaluated twice in cycle %d", name, em.cycle))
	}
	em.evalSeen[name] = true
	em.engCand[name] = cand
	if int64(re.Salience) != rule.Sal() {
		r.violate("C03.salience-value", fmt.Sprintf("rule %s carries salience %d, its text says %d", name, re.Salience, rule.Sal()))
	}
	t := em.truthOf(name)
	if t == grl.Err && r.sc.Knobs.RetErr {
		r.violate("C14.evalerr-not-returned", fmt.Sprintf("condition of %s fails to evaluate and ReturnErrOnFailedRuleEvaluation is set, yet the run continued", name))
	}
	if cand && t != grl.True {
		r.violate("C06.false-candidate", fmt.Sprintf("cycle %d: rule %s reported as candidate, its condition is %s on the current facts", em.cycle, name, t))
	}
	if !cand && t == grl.True {
		r.violate("C02.missed-candidate", fmt.Sprintf("cycle %d: rule %s not reported as candidate, its condition is true on the current facts: %s", em.cycle, name, grl.PrintExpr(rule.When)))
	}
	if t == grl.Err {
		r.res.probe("eval.cond-error")
	}
}

func (em *EModel) onExecCallback(r *run, cycle uint64, re *ast.RuleEntry) {
	if int(cycle) != em.cycle {
		r.violate("C06.exec-cycle-number", fmt.Sprintf("ExecuteRuleEntry(%s) reported cycle %d during cycle %d", re.RuleName, cycle, em.cycle))
	}
	em.onExec(r, re.RuleName)
}

// retractOutlivedCall: rules that are not evaluated although this call retracted nothing, on an instance that
// has been used before, and that the instance still flags as retracted: a Retract of an EARLIER call is still
// in force ("for the remainder of that Execute call", C10).
func (em *EModel) retractOutlivedCall(r *run, missing []string) {
	if len(r.sc.Calls) == 0 || len(em.retractCalls) > 0 || r.kb == nil {
		return
	}
	var still []string
	for _, n := range missing {
		if r.kb.IsRuleRetracted(n) {
			still = append(still, n)
		}
	}
	if len(still) > 0 {
		r.violate("C10.retract-outlives-call", fmt.Sprintf("rule(s) %v are not evaluated in this call, which retracted nothing: they are still flagged retracted from an earlier call on the same instance", still))
	}
}

func (em *EModel) onExec(r *run, name string) {
	if r.sc.Knobs.Listeners > 0 {
		var missing []string
		for _, n := range em.activeNames() {
			if !em.evalSeen[n] {
				missing = append(missing, n)
			}
		}
		if len(missing) > 0 {
			r.violate("C06.missing-eval", fmt.Sprintf("cycle %d fires %s although %v were never reported evaluated", em.cycle, name, missing))
			em.retractOutlivedCall(r, missing)
			if len(em.retractCalls) > 0 {
				r.violate("C10.retract-affected-other-rule", fmt.Sprintf("after Retract(%v) the rule(s) %v, which were not named, are no longer evaluated (cycle %d)", em.retractCalls, missing, em.cycle))
			}
		}
	}
	if em.execInCycle >= 1 {
		r.violate("C03.two-firings", fmt.Sprintf("second firing (%s) in cycle %d", name, em.cycle))
	}
	em.execInCycle++
	_, known := em.rules[name]
	switch {
	case !known || em.removed[name]:
		r.violate("C01.fired-removed", fmt.Sprintf("rule %q fired but is not an active rule (removed or unknown)", name))
		if known || strings.HasPrefix(name, "Deleted_") {
			r.violate("C16.removed-rule-fired", fmt.Sprintf("rule %s fired in cycle %d although it had been removed from this instance", normName(name), em.cycle))
		}
		return
	case em.retracted[name]:
		r.violate("C10.fired-retracted", fmt.Sprintf("rule %s fired after it had been retracted", name))
		return
	}
	t := em.truthOf(name)
	if t != grl.True {
		r.violate("C01.fired-while-not-true", fmt.Sprintf("cycle %d: rule %s fires, its condition is %s on the current facts: %s", em.cycle, name, t, grl.PrintExpr(em.rules[name].When)))
	}
	if r.sc.Knobs.Listeners > 0 && !em.engCand[name] {
		r.violate("C06.exec-not-candidate", fmt.Sprintf("cycle %d: %s executed without having been reported candidate", em.cycle, name))
	}
	cs := em.conflictSet()
	sameSet := true
	if r.sc.Knobs.Listeners > 0 {
		var ec []string
		for n, c := range em.engCand {
			if c {
				ec = append(ec, n)
			}
		}
		sort.Strings(ec)
		sc := append([]string{}, cs...)
		sort.Strings(sc)
		sameSet = strings.Join(ec, ",") == strings.Join(sc, ",")
	}
	if sameSet && len(cs) > 0 {
		top, _ := em.maxSal(cs)
		if em.rules[name].Sal() < top {
			r.violate("C03.not-max-salience", fmt.Sprintf("cycle %d: %s (salience %d) fires while the conflict set %v holds salience %d", em.cycle, name, em.rules[name].Sal(), cs, top))
		}
		if len(cs) >= 2 {
			r.res.probe("exec.choice-among-ge2")
		}
	}
	if uint64(em.firings+1) > r.sc.Knobs.MaxCycle {
		r.violate("C06.over-budget", fmt.Sprintf("firing %d exceeds MaxCycle %d", em.firings+1, r.sc.Knobs.MaxCycle))
	}
	em.firings++
	em.pending = name
	// RuleEntry.Execute is entered right after this; if the context is already cancelled the
	// engine refuses to run the actions, which is what the property demands.
	em.pendingRefused = r.cancelled && r.cancelSeq <= r.seq
}

func (em *EModel) onFault(r *run, fr faultRec) {
	switch fr.phase {
	case "eval":
		if em.condFault == nil {
			em.condFault = map[string]bool{}
		}
		em.condFault[fr.rule] = true
		em.faultCycle = em.cycle
		em.faultedRules[fr.rule] = true
		r.res.probe("fault.in-condition")
	case "action":
		f := fr
		if em.actFault == nil {
			em.actFault = &f
		}
		r.res.probe("fault.in-action")
	default:
		r.res.HarnessErr = fmt.Sprintf("fault planned at event %d which is outside any evaluation or firing", fr.seq)
	}
}

// a Log and a bare side-effect-free call produce no write event at the seams
func isWriteStmt(a *grl.Action) bool { return a.K != "log" && a.K != "eval" }

// finishFiring applies the pending rule's actions to the model and compares the facts.
func (em *EModel) finishFiring(r *run) {
	name := em.pending
	em.pending = ""
	if em.pendingRefused {
		return
	}
	rule := em.rules[name]
	if rule == nil {
		return
	}
	before := map[string]grl.Truth{}
	for _, n := range em.activeNames() {
		before[n] = em.truth[n]
	}
	stopAfterWrites := -1
	if em.actFault != nil {
		stopAfterWrites = em.actFault.w
	}
	var pre grl.State
	if len(rule.Then) > 1 && em.actFault == nil {
		pre = grl.CloneState(em.m.S) // kept to tell an incompletely applied action list from a wrong value
	}
	writes := 0
	for i, a := range rule.Then {
		if stopAfterWrites >= 0 && isWriteStmt(a) && writes == stopAfterWrites {
			em.actErrRule, em.actErrSeen = name, true
			break
		}
		if a.K == "assign" {
			r.res.probe(assignCell(em.m, a))
		}
		eff, err := em.m.Apply(a)
		if err != nil {
			em.actErrRule, em.actErrSeen = name, true
			r.res.probe("action.natural-error")
			_ = i
			break
		}
		if isWriteStmt(a) {
			writes++
		}
		if eff.Retract != "" {
			em.retractCalls = append(em.retractCalls, eff.Retract)
			if _, ok := em.rules[eff.Retract]; ok && !em.removed[eff.Retract] {
				em.retracted[eff.Retract] = true
				if eff.Retract == name {
					r.res.probe("retract.self")
				} else {
					r.res.probe("retract.other")
					if before[eff.Retract] == grl.True {
						r.res.probe("retract.other-current-candidate")
					}
				}
			} else {
				r.res.probe("retract.unknown")
			}
		}
		if eff.Complete {
			em.complete = true
			if i < len(rule.Then)-1 {
				r.res.probe("complete.mid-list")
			} else {
				r.res.probe("complete.last")
			}
		}
	}
	if em.actFault != nil && !em.actErrSeen {
		// the fault hit after the last write statement (e.g. inside a trailing Log)
		em.actErrRule, em.actErrSeen = name, true
	}
	if em.m.Env {
		r.abort("envelope", "model value left the envelope")
		return
	}
	if pr := r.real.PointerReplaced(); pr != "" {
		r.violate("C04.pointer-replaced", fmt.Sprintf("after firing %s the field %s points to a different object than the one the caller supplied: the write went into a copy, every other holder of the caller's pointer still sees the old number", name, pr))
	}
	realC := grl.Canon(r.real.State())
	modelC := grl.Canon(em.m.S)
	if realC != modelC {
		oracle := "C04.facts-diverge"
		if em.actErrSeen {
			oracle = "C14.partial-effects"
		}
		r.violate(oracle, fmt.Sprintf("after firing %s (cycle %d) the facts differ from the model:\n%s", name, em.cycle, diffCanon(realC, modelC)))
		if em.actErrSeen && em.actFault == nil {
			// a statement that must fail by itself (no injected fault) and fact data that changed beyond the
			// statements completed before it: something was written that no statement addresses (C04)
			r.violate("C04.written-by-failing-statement", fmt.Sprintf("rule %s (cycle %d): a statement of its action list fails on these facts, yet the facts differ from what the statements before it leave:\n%s", name, em.cycle, diffCanon(realC, modelC)))
		}
		if pre != nil && !em.actErrSeen {
			// do the real facts equal the model after a strict PREFIX of the list? then the firing was not applied completely
			pm := &grl.Model{S: pre}
			for j, a := range rule.Then {
				if grl.Canon(pm.S) == realC {
					r.violate("C03.actions-not-applied-completely", fmt.Sprintf("rule %s (cycle %d): only the first %d of %d statements were applied before the engine went on: the facts equal the model after that prefix", name, em.cycle, j, len(rule.Then)))
					break
				}
				if _, err := pm.Apply(a); err != nil {
					break
				}
			}
		}
	}
	// reach probes: condition transitions caused by this firing
	for _, n := range em.activeNames() {
		if n == name {
			continue
		}
		after := em.m.Cond(em.rules[n])
		if before[n] == grl.True && after == grl.False {
			r.res.probe("transition.true-to-false")
		}
		if before[n] == grl.False && after == grl.True {
			r.res.probe("transition.false-to-true")
		}
	}
}

func diffCanon(realC, modelC string) string {
	rl, ml := strings.Split(realC, "\n"), strings.Split(modelC, "\n")
	var b strings.Builder
	for i := 0; i < len(rl) || i < len(ml); i++ {
		var x, y string
		if i < len(rl) {
			x = rl[i]
		}
		if i < len(ml) {
			y = ml[i]
		}
		if x != y {
			fmt.Fprintf(&b, "  real : %s\n  model: %s\n", x, y)
		}
	}
	return b.String()
}

func (em *EModel) onReturn(r *run, err error) {
	res := r.res
	if em.pending != "" {
		refused := em.pendingRefused
		em.finishFiring(r)
		if refused {
			res.End = "cancel"
			if err == nil || !isCtxErr(err) {
				r.violate("C15.return-value", fmt.Sprintf("the context was cancelled before the actions of the selected rule could start, Execute returned %v", err))
			}
			return
		}
	}
	// final facts (also covers runs without any firing)
	realC, modelC := grl.Canon(r.real.State()), grl.Canon(em.m.S)
	if realC != modelC && !hasOracle(res, "C04.facts-diverge") && !hasOracle(res, "C14.partial-effects") {
		r.violate("C04.facts-diverge", "final facts differ from the model:\n"+diffCanon(realC, modelC))
	}
	switch {
	case em.actErrSeen:
		res.End = "acterr"
		if err == nil {
			if em.complete {
				r.violate("C10.complete-suppressed-error", fmt.Sprintf("rule %s called Complete() and a later action of the same list failed; Execute returned nil: Complete() is documented to stop the run, not to swallow errors", em.actErrRule))
			}
			r.violate("C14.action-error-not-reported", fmt.Sprintf("an action of rule %s failed but Execute returned nil", em.actErrRule))
		} else if !strings.Contains(err.Error(), em.actErrRule) {
			r.violate("C14.action-error-unnamed", fmt.Sprintf("an action of rule %s failed, the returned error does not name it: %v", em.actErrRule, err))
		}
		return
	case r.sc.Knobs.RetErr && r.phase == "eval" && em.active(r.curRule) && em.truthOf(r.curRule) == grl.Err:
		res.End = "evalerr"
		if err == nil {
			r.violate("C14.evalerr-swallowed", fmt.Sprintf("condition of %s failed with ReturnErrOnFailedRuleEvaluation set, Execute returned nil", r.curRule))
		} else if !strings.Contains(err.Error(), r.curRule) {
			r.violate("C14.evalerr-unnamed", fmt.Sprintf("condition of %s failed, the returned error does not name it: %v", r.curRule, err))
		}
		return
	}
	if r.cancelled {
		res.End = "cancel"
		if r.sc.CancelAt == -1 {
			if em.firings > 0 {
				r.violate("C15.fired-when-precancelled", fmt.Sprintf("%d rule(s) fired although the context was cancelled before the call", em.firings))
			}
			if err == nil || !isCtxErr(err) {
				r.violate("C15.return-value", fmt.Sprintf("context cancelled before the call, Execute returned %v", err))
			}
			return
		}
		if err != nil && isCtxErr(err) {
			return
		}
		// Not the context's error. That is acceptable only when the run had nothing left to do
		// when the cancellation happened (no evaluation and no firing started afterwards); the
		// result is then judged exactly like the result of an uncancelled run below.
		if r.evalAfterCancel || r.firingAfterCancel {
			r.violate("C15.return-value", fmt.Sprintf("context cancelled at event %d, the engine went on (evaluationAfter=%v firingAfter=%v) and returned %v", r.cancelSeq, r.evalAfterCancel, r.firingAfterCancel, err))
			return
		}
		res.End = "cancel-finished"
	}
	if em.complete {
		if res.End == "" {
			res.End = "complete"
		}
		if err != nil {
			r.violate("C10.complete-not-nil", fmt.Sprintf("Complete() was called, Execute returned %v", err))
		}
		return
	}
	// quiescence or cycle limit
	lastFaulted := map[string]bool{}
	if em.faultCycle == em.cycle {
		lastFaulted = em.condFault
	}
	em.condFault = nil
	em.computeTruth()
	var cs []string
	for _, n := range em.conflictSet() {
		if !lastFaulted[n] {
			cs = append(cs, n)
		}
	}
	if err == nil {
		if res.End == "" {
			res.End = "quiescent"
		}
		if len(cs) > 0 && r.cancelled {
			r.violate("C15.return-value", fmt.Sprintf("context cancelled at event %d with work left (%v satisfied), Execute returned nil", r.cancelSeq, cs))
		} else if len(cs) > 0 {
			for n, c := range em.engCand {
				if c && em.execInCycle == 0 {
					r.violate("C03.candidate-not-fired", fmt.Sprintf("cycle %d: rule %s (salience %d) was reported as candidate, the budget allowed a firing (%d of %d used), yet no rule fired and Execute returned nil", em.cycle, n, em.rules[n].Sal(), em.firings, r.sc.Knobs.MaxCycle))
					break
				}
			}
			r.violate("C02.not-quiescent", fmt.Sprintf("Execute returned nil after %d firing(s) (MaxCycle %d) although %v are satisfied on the final facts", em.firings, r.sc.Knobs.MaxCycle, cs))
		}
		if r.sc.Knobs.Listeners > 0 && em.cycle > 0 {
			var missing []string
			for _, n := range em.activeNames() {
				if !em.evalSeen[n] {
					missing = append(missing, n)
				}
			}
			if len(missing) > 0 {
				r.violate("C06.missing-eval", fmt.Sprintf("final cycle %d never reported %v", em.cycle, missing))
				em.retractOutlivedCall(r, missing)
				if len(em.retractCalls) > 0 {
					r.violate("C10.retract-affected-other-rule", fmt.Sprintf("after Retract(%v) the rule(s) %v, which were not named, are no longer evaluated (cycle %d)", em.retractCalls, missing, em.cycle))
				}
			}
		}
		if r.sc.Knobs.Listeners > 0 && em.cycle == 0 {
			r.violate("C06.no-cycle", "Execute returned nil without notifying any cycle")
		}
		return
	}
	// err != nil
	if isCtxErr(err) {
		r.violate("C15.spurious-context-error", fmt.Sprintf("context error without cancellation: %v", err))
		return
	}
	if res.End == "" {
		res.End = "limit"
	}
	if len(cs) == 0 && len(lastFaulted) == 0 {
		r.violate("C06.unexpected-error", fmt.Sprintf("Execute returned an error although the model expects quiescence after %d firing(s): %v", em.firings, err))
		return
	}
	if uint64(em.firings) < r.sc.Knobs.MaxCycle {
		r.violate("C06.early-limit", fmt.Sprintf("Execute returned an error after %d firing(s) with MaxCycle %d: %v", em.firings, r.sc.Knobs.MaxCycle, err))
	}
}

func hasOracle(res *Result, o string) bool {
	for _, v := range res.Violations {
		if v.Oracle == o {
			return true
		}
	}
	return false
}

func (em *EModel) onFetchReturn(r *run, matched []*ast.RuleEntry, err error) {
	res := r.res
	em.computeTruth() // retracted is empty for a fresh call; removed rules excluded
	var want []string
	anyErr := ""
	for _, n := range em.order {
		if em.removed[n] {
			continue
		}
		t := em.m.Cond(em.rules[n])
		if em.faultedRules[n] {
			t = grl.Err
		}
		switch t {
		case grl.True:
			want = append(want, n)
		case grl.Err:
			anyErr = n
		}
	}
	after := grl.Canon(r.real.State())
	if after != em.before {
		r.violate("C11.facts-changed", "FetchMatchingRules changed the facts:\n"+diffCanon(after, em.before))
	}
	if r.sc.Knobs.RetErr && anyErr != "" {
		res.End = "fetch-evalerr"
		if err == nil {
			r.violate("C11.evalerr-swallowed", fmt.Sprintf("condition of %s fails to evaluate and ReturnErrOnFailedRuleEvaluation is set, FetchMatchingRules returned no error", anyErr))
		}
		return
	}
	res.End = "fetch"
	if err != nil {
		r.violate("C11.unexpected-error", fmt.Sprintf("FetchMatchingRules returned %v", err))
		return
	}
	var got []string
	for i, m := range matched {
		got = append(got, m.RuleName)
		if i > 0 && matched[i-1].Salience < m.Salience {
			r.violate("C11.order", fmt.Sprintf("result not in non-increasing salience order: %s(%d) before %s(%d)", matched[i-1].RuleName, matched[i-1].Salience, m.RuleName, m.Salience))
		}
		if rule, ok := em.rules[m.RuleName]; ok && int64(m.Salience) != rule.Sal() {
			r.violate("C03.salience-value", fmt.Sprintf("rule %s carries salience %d, its text says %d", m.RuleName, m.Salience, rule.Sal()))
		}
	}
	gs, ws := append([]string{}, got...), append([]string{}, want...)
	sort.Strings(gs)
	sort.Strings(ws)
	if strings.Join(gs, ",") != strings.Join(ws, ",") {
		r.violate("C11.wrong-set", fmt.Sprintf("FetchMatchingRules returned %v, satisfied non-removed rules are %v", gs, ws))
	}
	if len(want) >= 2 {
		res.probe("fetch.ge2-matches")
	}
	if anyErr != "" {
		res.probe("fetch.cond-error")
	}
}

// ---------------------------------------------------------------------------------------------
// C13: counted calls and invalidation epochs

// CountedCalls finds fact methods (pure ones) that occur with exactly one call text in the whole
// program; invocations of such a method are attributable to that text.
func CountedCalls(p *grl.Program) (map[string]string, map[string][]*grl.Path) {
	texts := map[string]map[string]*grl.Expr{}
	var walk func(e *grl.Expr)
	walk = func(e *grl.Expr) {
		if e == nil {
			return
		}
		if e.K == "call" {
			if sig, ok := grl.Methods[e.Fn]; ok && !sig.Mutator && len(e.Path.Steps) == 0 && e.Fn != "Boom" && e.Fn != "BoomErr" { // a method that panics yields nothing to remember
				key := e.Path.Root + "." + e.Fn
				if texts[key] == nil {
					texts[key] = map[string]*grl.Expr{}
				}
				texts[key][grl.PrintExpr(e)] = e
			}
		}
		if e.Path != nil {
			for _, s := range e.Path.Steps {
				walk(s.Sel)
			}
		}
		walk(e.L)
		walk(e.R)
		for _, a := range e.Args {
			walk(a)
		}
	}
	for _, r := range p.Rules {
		walk(r.When)
		for _, a := range r.Then {
			walk(a.E)
			if a.Path != nil {
				for _, s := range a.Path.Steps {
					walk(s.Sel)
				}
			}
		}
	}
	counted := map[string]string{}
	vars := map[string][]*grl.Path{}
	for key, m := range texts {
		if len(m) != 1 {
			continue
		}
		for text, e := range m {
			counted[key] = text
			vars[key] = PathsIn(e)
		}
	}
	return counted, vars
}

// PathsIn lists every path occurring in an expression (receiver included).
func PathsIn(e *grl.Expr) []*grl.Path {
	var out []*grl.Path
	var walk func(e *grl.Expr)
	walk = func(e *grl.Expr) {
		if e == nil {
			return
		}
		if e.Path != nil {
			out = append(out, e.Path)
			for _, s := range e.Path.Steps {
				walk(s.Sel)
			}
		}
		walk(e.L)
		walk(e.R)
		for _, a := range e.Args {
			walk(a)
		}
	}
	walk(e)
	return out
}

// related is the permissive "concerns" relation between an assigned path and a path used by a
// call: one is a prefix of the other, or both are elements of the same container.
func related(p, v *grl.Path) bool {
	if p.Root != v.Root {
		return false
	}
	n := len(p.Steps)
	if len(v.Steps) < n {
		n = len(v.Steps)
	}
	for i := 0; i < n; i++ {
		a, b := p.Steps[i], v.Steps[i]
		if a.Sel != nil || b.Sel != nil {
			// same container, any two selectors; and on a JSON object a selector against a member name
			// (J["b"] is J.b, and a computed key may be any member): the container is the unit
			return true
		}
		if a.Field != b.Field {
			return false
		}
	}
	return true
}

func (em *EModel) invalidate(a *grl.Action) {
	for key, text := range em.counted {
		switch a.K {
		case "assign":
			for _, v := range em.countedVars[key] {
				if related(a.Path, v) {
					em.epochCalls[key] = 0
				}
			}
		case "forget", "changed":
			if em.varTexts[a.Text] {
				// the snippet names a variable of the rule set: the engine resets exactly what depends on
				// that variable, so only calls in which it occurs as a variable (not as a mere
				// substring such as F.I in F.IsBig(3)) start a new epoch
				if tokenContains(text, a.Text) {
					em.epochCalls[key] = 0
				}
			} else if strings.Contains(text, a.Text) || strings.Contains(a.Text, text) {
				em.epochCalls[key] = 0 // free text: the engine matches by substring, so does the model
			}
		}
	}
}

// onWriteEvent is called in real time when the k-th (0-based) write event of the current firing is
// about to be performed: the corresponding statement opens new epochs for the calls it concerns.
func (em *EModel) onWriteEvent(firingRule string, k int) {
	rule := em.rules[firingRule]
	if rule == nil {
		return
	}
	n := 0
	for _, a := range rule.Then {
		if !isWriteStmt(a) {
			continue
		}
		if n == k {
			em.invalidate(a)
			return
		}
		n++
	}
}

func (em *EModel) onMethod(r *run, fact, method string) {
	key := fact + "." + method
	text, ok := em.counted[key]
	if !ok {
		return
	}
	em.epochCalls[key]++
	r.res.probe("counted-call")
	if em.epochCalls[key] > 1 {
		r.violate("C13.recomputed", fmt.Sprintf("%s was invoked %d times within one invalidation epoch (cycle %d)", text, em.epochCalls[key], em.cycle))
	}
}


// VariableTexts lists the GRL text of every variable of a rule set: each path and each prefix.
func VariableTexts(p *grl.Program) map[string]bool {
	out := map[string]bool{}
	add := func(pa *grl.Path) {
		for n := 0; n <= len(pa.Steps); n++ {
			out[grl.PrintPath(&grl.Path{Root: pa.Root, Steps: pa.Steps[:n]})] = true
		}
	}
	for _, r := range p.Rules {
		for _, pa := range PathsIn(r.When) {
			add(pa)
		}
		for _, a := range r.Then {
			if a.Path != nil {
				add(a.Path)
				for _, s := range a.Path.Steps {
					for _, pa := range PathsIn(s.Sel) {
						add(pa)
					}
				}
			}
			for _, pa := range PathsIn(a.E) {
				add(pa)
			}
		}
	}
	return out
}

func identChar(c byte) bool {
	return c == '_' || (c >= '0' && c <= '9') || (c >= 'a' && c <= 'z') || (c >= 'A' && c <= 'Z')
}

// tokenContains reports whether x occurs in t as a variable: not preceded by an identifier
// character or a dot, not followed by an identifier character.
func tokenContains(t, x string) bool {
	for from := 0; ; {
		i := strings.Index(t[from:], x)
		if i < 0 {
			return false
		}
		i += from
		beforeOK := i == 0 || !(identChar(t[i-1]) || t[i-1] == '.')
		j := i + len(x)
		afterOK := j >= len(t) || !identChar(t[j])
		if beforeOK && afterOK {
			return true
		}
		from = i + 1
	}
}


// assignCell names the cell of the (path shape, destination kind, source type, form) matrix an
// assignment exercises; the set of cells hit is reported in the evidence of C04.
func assignCell(m *grl.Model, a *grl.Action) string {
	shape := "top-level"
	if n := len(a.Path.Steps); n > 0 {
		last := a.Path.Steps[n-1]
		switch {
		case a.Path.Root == "J" && last.Sel != nil && last.Sel.LitK == "string":
			shape = "json-member(selector-syntax)"
		case a.Path.Root == "J" && last.Sel != nil:
			shape = "json-array"
		case a.Path.Root == "J":
			shape = "json-member"
		case last.Sel != nil && last.Sel.LitK == "string", last.Sel != nil && grl.TypeOf(last.Sel) == grl.TString:
			shape = "map-entry"
		case last.Sel != nil:
			shape = "slice-element"
		case n >= 2:
			shape = "nested-pointer-field"
		default:
			shape = "field"
		}
		if last.Sel != nil && n >= 2 && a.Path.Root != "J" {
			switch a.Path.Steps[n-2].Field {
			case "AI":
				shape = "interface-slice-element"
			case "MI":
				shape = "int-key-map-entry"
			}
		}
		if last.Sel == nil && a.Path.Root != "J" {
			for _, st := range a.Path.Steps[:n-1] {
				if st.Sel != nil {
					shape = "field-of-container-element"
				}
			}
		}
		if last.Sel != nil && last.Sel.K != "lit" {
			shape += "(computed-selector)"
		}
	}
	dest := "?"
	if cur, err := m.EvalPath(a.Path); err == nil && cur != nil {
		dest = fmt.Sprintf("%T", cur)
	}
	return fmt.Sprintf("assign-cell.%s.%s.%s.%s", shape, dest, grl.TypeOf(a.E), a.Op)
}
