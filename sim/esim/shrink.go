package esim

import (
	"grulesim/sim/core"
	"grulesim/sim/gen"
	"grulesim/sim/grl"
)

// Failing reports whether the scenario still shows a violation of the given oracle.
type Failing func(sc *core.Scenario) bool

// Shrink minimises a scenario structurally while the same oracle keeps failing. It returns the
// smallest scenario found and the number of candidates tried.
func Shrink(sc *core.Scenario, fails Failing, budget int) (*core.Scenario, int) {
	best := sc.Clone()
	tried := 0
	try := func(c *core.Scenario) bool {
		if tried >= budget {
			return false
		}
		tried++
		if c.Program != nil {
			gen.AnnounceFieldMethods(c.Program, nil) // a candidate must stay inside the documented protocol (R2)
			c.GRL = grl.PrintProgram(c.Program)
		}
		if fails(c) {
			best = c
			return true
		}
		return false
	}
	for pass := 0; pass < 8 && tried < budget; pass++ {
		progress := false
		// drop rules
		for i := 0; best.Program != nil && i < len(best.Program.Rules) && len(best.Program.Rules) > 1; {
			c := best.Clone()
			name := c.Program.Rules[i].Name
			c.Program.Rules = append(c.Program.Rules[:i], c.Program.Rules[i+1:]...)
			var rem []string
			for _, r := range c.Removed {
				if r != name {
					rem = append(rem, r)
				}
			}
			c.Removed = rem
			if try(c) {
				progress = true
			} else {
				i++
			}
		}
		// drop actions
		if best.Program != nil {
			for ri := 0; ri < len(best.Program.Rules); ri++ {
				for ai := 0; ai < len(best.Program.Rules[ri].Then) && len(best.Program.Rules[ri].Then) > 1; {
					c := best.Clone()
					t := c.Program.Rules[ri].Then
					c.Program.Rules[ri].Then = append(t[:ai], t[ai+1:]...)
					if try(c) {
						progress = true
					} else {
						ai++
					}
				}
			}
		}
		// knobs and plans
		simpl := []func(c *core.Scenario) bool{
			func(c *core.Scenario) bool { if c.Knobs.Source == "direct" || c.Knobs.Source == "" { return false }; c.Knobs.Source = "direct"; return true },
			func(c *core.Scenario) bool { if c.Knobs.Listeners == 1 { return false }; c.Knobs.Listeners = 1; return true },
			func(c *core.Scenario) bool { if c.Knobs.SplitAt == 0 { return false }; c.Knobs.SplitAt = 0; return true },
			func(c *core.Scenario) bool { if c.Knobs.RefetchFrom == nil { return false }; c.Knobs.RefetchFrom = nil; return true },
			func(c *core.Scenario) bool { if !c.Knobs.OtherInstanceFirst { return false }; c.Knobs.OtherInstanceFirst = false; return true },
			func(c *core.Scenario) bool { if !c.Knobs.RemoveOnInstance { return false }; c.Knobs.RemoveOnInstance = false; return true },
			func(c *core.Scenario) bool { if len(c.Calls) == 0 { return false }; c.Calls = nil; return true },
			func(c *core.Scenario) bool { if !c.Knobs.RetErr { return false }; c.Knobs.RetErr = false; return true },
			func(c *core.Scenario) bool { if len(c.Removed) == 0 { return false }; c.Removed = nil; return true },
			func(c *core.Scenario) bool { if len(c.Schedule) == 0 { return false }; c.Schedule = nil; return true },
			func(c *core.Scenario) bool { if len(c.Schedule) < 2 { return false }; c.Schedule = c.Schedule[:len(c.Schedule)/2]; return true },
			func(c *core.Scenario) bool { if c.CancelAt == 0 { return false }; c.CancelAt = 0; return true },
			func(c *core.Scenario) bool { if c.CancelAtCallback == 0 { return false }; c.CancelAtCallback = 0; return true },
			func(c *core.Scenario) bool { if c.CancelAtCallback < 2 { return false }; c.CancelAtCallback--; return true },
			func(c *core.Scenario) bool { if c.DeadlineNs == 0 { return false }; c.DeadlineNs = 0; return true },
			func(c *core.Scenario) bool { if c.Knobs.MaxCycle == 0 { return false }; c.Knobs.MaxCycle--; return true },
			func(c *core.Scenario) bool { if c.Knobs.MaxCycle < 2 { return false }; c.Knobs.MaxCycle /= 2; return true },
		}
		for _, f := range simpl {
			for {
				c := best.Clone()
				if !f(c) || !try(c) {
					break
				}
				progress = true
			}
		}
		for i := 0; i < len(best.Schedule); i++ {
			if len(best.Schedule[i]) == 0 {
				continue
			}
			c := best.Clone()
			c.Schedule[i] = nil
			if try(c) {
				progress = true
			}
		}
		for i := 0; i < len(best.Faults); {
			c := best.Clone()
			c.Faults = append(c.Faults[:i], c.Faults[i+1:]...)
			if try(c) {
				progress = true
			} else {
				i++
			}
		}
		// description / salience removal
		if best.Program != nil {
			for ri := range best.Program.Rules {
				if best.Program.Rules[ri].Desc != nil {
					c := best.Clone()
					c.Program.Rules[ri].Desc = nil
					if try(c) {
						progress = true
					}
				}
				if best.Program.Rules[ri].Salience != nil {
					c := best.Clone()
					c.Program.Rules[ri].Salience = nil
					if try(c) {
						progress = true
					}
				}
			}
		}
		// expression simplification: replace a sub-expression by a same-typed child or literal
		if best.Program != nil {
			for si := 0; tried < budget; si++ {
				slots := grl.ExprSlots(best.Program)
				if si >= len(slots) {
					break
				}
				e := *slots[si]
				t := grl.TypeOf(e)
				if t == "" || e.K == "lit" {
					continue
				}
				var repl []*grl.Expr
				for _, ch := range []*grl.Expr{e.L, e.R} {
					if ch != nil && grl.TypeOf(ch) == t {
						repl = append(repl, ch)
					}
				}
				repl = append(repl, grl.LitOf(t)...)
				for _, rp := range repl {
					c := best.Clone()
					cs := grl.ExprSlots(c.Program)
					*cs[si] = grl.CloneExpr(rp)
					if try(c) {
						progress = true
						break
					}
				}
			}
		}
		// facts: replace whole facts by plain ones
		plain := func() *grl.Fact {
			return &grl.Fact{A: []int64{0, 0, 0}, AS: []string{"", "", ""}, AF: []float32{0, 0, 0},
				L: []*grl.Sub{{}, {}}, MP: map[string]*grl.Sub{"k1": {}, "k2": {}},
				M: map[string]int64{"k1": 0, "k2": 0}, MS: map[string]string{"k1": "", "k2": ""},
				MI: map[int64]int64{1: 0, 2: 0}, AI: []interface{}{int64(0), "", 0.0},
				P: &grl.Sub{Q: &grl.Leaf{}}, P2: &grl.Sub{Q: &grl.Leaf{}}, PN: new(int64)}
		}
		if best.Facts != nil {
			fs := []func(c *core.Scenario){
				func(c *core.Scenario) { c.Facts.F = plain() },
				func(c *core.Scenario) { c.Facts.G = plain() },
				func(c *core.Scenario) { c.Facts.N = 0 },
				func(c *core.Scenario) { c.Facts.Z = "" },
				func(c *core.Scenario) { c.Facts.J = []byte(`{"n":0,"s":"","b":false,"o":{"k":0},"a":[0,0,0]}`) },
			}
			for _, f := range fs {
				c := best.Clone()
				before, _ := jsonOf(c.Facts)
				f(c)
				after, _ := jsonOf(c.Facts)
				if before == after {
					continue
				}
				if try(c) {
					progress = true
				}
			}
		}
		if !progress {
			break
		}
	}
	return best, tried
}
