// Package esim is "Sim E": one knowledge-base instance, one Execute or FetchMatchingRules call,
// with the rule-evaluation order, faults, cancellation and simulated time under simulator control,
// compared in lock-step with the memory-free reference model.
package esim

import (
	"bytes"
	"encoding/json"
	"context"
	"errors"
	"fmt"
	"hash/fnv"
	"reflect"
	"sort"
	"strings"
	"time"

	"github.com/hyperjumptech/grule-rule-engine/ast"
	"github.com/hyperjumptech/grule-rule-engine/builder"
	"github.com/hyperjumptech/grule-rule-engine/engine"
	"github.com/hyperjumptech/grule-rule-engine/pkg"
	"github.com/hyperjumptech/grule-rule-engine/pkg/simhook"

	"grulesim/sim/core"
	"grulesim/sim/grl"
	"grulesim/sim/seams"
)

const (
	KBName    = "KB"
	KBVersion = "1"
)

// Result is what one simulated run produced.
type Result struct {
	Violations []core.Violation
	HarnessErr string // the machinery (not the code under test) failed: never a violation
	Events     int
	Cycles     int
	Firings    int
	End        string // quiescent complete limit evalerr acterr cancel panic error
	Finger     uint64 // hash of the complete event log
	SchedHash  uint64 // hash of the permutations actually handed out
	Log        []string
	Probes     map[string]int64
	SimNs      int64
	Faults     map[string]int // fault kinds that actually fired
	Err        error          // what the engine returned
	Matched    []string       // fetch mode: returned rule names
	FinalReal  string         // canonical final fact state
	MethodCalls map[string]int
	Callbacks   int      // number of callbacks listener 0 received
	Eligible    []EvInfo // events at which a fault may be injected (clean runs)
	TimeAt      []int64  // simulated time of each event (index = seq-1)
}

// EvInfo describes one event of a run for the fault planner.
type EvInfo struct {
	Seq   int
	Kind  string
	Phase string
}

func (r *Result) probe(name string) { r.Probes[name]++ }

// IDSource hands out deterministic node identifiers.
type IDSource struct {
	Prefix string
	n      int
}

func (s *IDSource) Next() string {
	s.n++
	return fmt.Sprintf("%s%010d", s.Prefix, s.n)
}

// InstallIDs routes unique.NewID to a fresh deterministic counter and returns it.
func InstallIDs(prefix string) *IDSource {
	src := &IDSource{Prefix: prefix}
	simhook.ID = src.Next
	return src
}

// BuildLibrary builds the GRL text with the real builder into a fresh library.
func BuildLibrary(grlText string) (*ast.KnowledgeLibrary, error) {
	lib := ast.NewKnowledgeLibrary()
	rb := builder.NewRuleBuilder(lib)
	if err := rb.BuildRuleFromResource(KBName, KBVersion, pkg.NewBytesResource([]byte(grlText))); err != nil {
		return nil, err
	}
	return lib, nil
}

// BuildLibraryOf builds a program, optionally as two resources.
func BuildLibraryOf(p *grl.Program, splitAt int) (*ast.KnowledgeLibrary, error) {
	if splitAt <= 0 || splitAt >= len(p.Rules) {
		return BuildLibrary(grl.PrintProgram(p))
	}
	lib := ast.NewKnowledgeLibrary()
	rb := builder.NewRuleBuilder(lib)
	for _, part := range [][]*grl.Rule{p.Rules[:splitAt], p.Rules[splitAt:]} {
		if err := rb.BuildRuleFromResource(KBName, KBVersion, pkg.NewBytesResource([]byte(grl.PrintProgram(&grl.Program{Rules: part})))); err != nil {
			return nil, err
		}
	}
	return lib, nil
}

// Instance obtains an instance by the knob-selected route.
func Instance(lib *ast.KnowledgeLibrary, source string) (*ast.KnowledgeBase, error) {
	switch source {
	case "", "direct":
		return lib.NewKnowledgeBaseInstance(KBName, KBVersion)
	case "grb":
		var buf bytes.Buffer
		if err := lib.StoreKnowledgeBaseToWriter(&buf, KBName, KBVersion); err != nil {
			return nil, fmt.Errorf("store: %w", err)
		}
		lib2 := ast.NewKnowledgeLibrary()
		if _, err := lib2.LoadKnowledgeBaseFromReader(bytes.NewReader(buf.Bytes()), true); err != nil {
			return nil, fmt.Errorf("load: %w", err)
		}
		return lib2.NewKnowledgeBaseInstance(KBName, KBVersion)
	case "reclone":
		kb, err := lib.NewKnowledgeBaseInstance(KBName, KBVersion)
		if err != nil {
			return nil, err
		}
		return kb.Clone(pkg.NewCloneTable())
	}
	return nil, fmt.Errorf("unknown instance source %q", source)
}



// simCtx is a context whose Err() answers from the simulator (cancel event or simulated deadline).
type simCtx struct {
	context.Context
	r *run
}

func (c *simCtx) Err() error {
	if c.r.aborted != "" {
		return context.Canceled
	}
	if c.r.cancelled {
		if c.r.sc.DeadlineNs > 0 {
			return context.DeadlineExceeded
		}
		return context.Canceled
	}
	return nil
}
func (c *simCtx) Done() <-chan struct{} { return nil }
func (c *simCtx) Deadline() (time.Time, bool) {
	if c.r.sc.DeadlineNs > 0 {
		return time.Unix(0, c.r.sc.DeadlineNs).UTC(), true
	}
	return time.Time{}, false
}

type faultRec struct {
	seq   int
	kind  string
	phase string // eval | action | other
	rule  string
	w     int // write events completed in the firing before the fault (action phase)
}

type run struct {
	sc  *core.Scenario
	res *Result
	em  *EModel

	muted    bool   // seam events are passed through unrecorded (preliminary, unjudged call)
	kb       *ast.KnowledgeBase
	aborted  string // "" | envelope | runaway: the run is being wound down, nothing is judged any more
	abortWhy string
	seq      int
	now      int64
	h        uint64
	loopIdx  int
	maxEvent int

	mode string

	// engine position
	phase        string // idle | eval | action
	curRule      string // rule handed to the loop body (eval phase) or firing (action phase)
	visitSeq     int
	firingRule   string
	firingStart  int
	firingWrites int // write events completed in the current firing
	pendingWrite bool

	cancelled bool
	cancelSeq int
	callbacks int // callbacks of listener 0 so far
	cancelInCallback string
	evalAfterCancel   bool
	firingAfterCancel bool

	faults []faultRec

	yield   func(site string)
	lsnSeq  [][]string // per listener: rendered callback sequence
	real    *realFacts
	logAll  []string
	factHooks *grl.Hooks
}

type realFacts struct {
	pnF, pnG *int64 // the caller's own pointers to numbers: must stay the same objects
	f, g *grl.Fact
	ctx  ast.IDataContext
	has  map[string]bool
}

// overwrite changes the caller's fact objects IN PLACE to new values (the caller's own Go code
// doing so between two calls that use the same data context).
func (rf *realFacts) overwrite(f *grl.Facts, hooks *grl.Hooks) error {
	st := grl.NewState(f)
	for k, v := range st {
		switch k {
		case "F":
			if rf.f == nil {
				return fmt.Errorf("fact F absent in the first fact set")
			}
			*rf.f = *(v.(*grl.Fact))
			rf.pnF = rf.f.PN
			rf.f.Bind("F", hooks)
		case "G":
			if rf.g == nil {
				return fmt.Errorf("fact G absent in the first fact set")
			}
			*rf.g = *(v.(*grl.Fact))
			rf.pnG = rf.g.PN
			rf.g.Bind("G", hooks)
		case "J":
			if err := rf.ctx.AddJSON("J", f.J); err != nil {
				return err
			}
		default:
			if err := rf.ctx.Add(k, v); err != nil {
				return err
			}
		}
	}
	return nil
}

// PointerReplaced reports a pointer-to-number field that no longer is the object the caller put there.
func (rf *realFacts) PointerReplaced() string {
	if rf.f != nil && rf.f.PN != rf.pnF {
		return "F.PN"
	}
	if rf.g != nil && rf.g.PN != rf.pnG {
		return "G.PN"
	}
	return ""
}

// State reads the caller-visible fact state from the real objects.
func (rf *realFacts) State() grl.State {
	s := grl.State{}
	if rf.f != nil {
		s["F"] = rf.f
	}
	if rf.g != nil {
		s["G"] = rf.g
	}
	for _, k := range rf.ctx.GetKeys() {
		if k == "DEFUNC" || k == "F" || k == "G" {
			continue
		}
		n := rf.ctx.Get(k)
		if n == nil {
			continue
		}
		v := n.Value()
		if v.IsValid() && v.CanInterface() {
			s[k] = v.Interface()
		} else {
			s[k] = nil
		}
	}
	return s
}

func (r *run) abort(kind, why string) {
	if r.aborted == "" {
		r.aborted, r.abortWhy = kind, why
	}
}

func (r *run) violate(oracle, msg string) {
	if r.aborted != "" {
		return
	}
	prop := oracle[:3]
	for _, v := range r.res.Violations {
		if v.Oracle == oracle {
			return // one report per oracle and run is enough
		}
	}
	r.res.Violations = append(r.res.Violations, core.Violation{Oracle: oracle, Property: prop, Message: msg})
	// C14 promises that a contained failure disturbs nothing else: any divergence from the model
	// in a run into which a fault was injected is therefore also a C14 matter.
	if len(r.faults) > 0 && prop != "C14" && prop != "C15" && oracle != "C14.disturbed-after-fault" {
		f := r.faults[0]
		r.violate("C14.disturbed-after-fault", fmt.Sprintf("after the %s injected at event %d (%s of %s) the run diverges from the model: %s: %s", f.kind, f.seq, f.phase, f.rule, oracle, msg))
	} else if r.res.Probes["eval.cond-error"] > 0 && prop != "C14" && prop != "C15" && oracle != "C14.disturbed-after-fault" {
		r.violate("C14.disturbed-after-fault", fmt.Sprintf("after a condition failed to evaluate earlier in this run (a natural fault), the run diverges from the model: %s: %s", oracle, msg))
	}
}

func (r *run) logf(format string, a ...interface{}) {
	if r.aborted != "" {
		return
	}
	line := fmt.Sprintf(format, a...)
	r.logAll = append(r.logAll, line)
	hh := fnv.New64a()
	hh.Write([]byte(line))
	r.h = core.Mix(r.h, hh.Sum64())
}

// Step implements seams.Sink.
func (r *run) Step(ev *seams.Event) seams.FaultKind {
	fk := r.step(ev)
	if r.yield != nil {
		r.yield("seam:" + ev.Kind)
	}
	return fk
}

func (r *run) step(ev *seams.Event) seams.FaultKind {
	if r.muted {
		return seams.NoFault
	}
	r.seq++
	ev.Seq = r.seq
	r.now += int64(core.Mix(r.sc.LatSeed, uint64(r.seq))%5_000_000) + 1
	r.logf("%d t=%d %s %s %s [%s %s]", ev.Seq, r.now, ev.Kind, ev.Path, ev.Detail, r.phase, normName(r.curRule))
	if r.aborted != "" {
		return seams.NoFault
	}
	if r.seq > r.maxEvent {
		r.abort("runaway", "event bound exceeded")
		return seams.NoFault
	}
	if len(ev.Detail) > 1500 {
		r.abort("envelope", "value longer than 1500 characters")
		return seams.NoFault
	}
	// cancellation takes effect inside this event
	if !r.cancelled {
		if r.sc.CancelAt > 0 && r.sc.CancelAt == r.seq {
			r.cancelled, r.cancelSeq = true, r.seq
			r.logf("-- cancel() at event %d", r.seq)
		} else if r.sc.DeadlineNs > 0 && r.now >= r.sc.DeadlineNs {
			r.cancelled, r.cancelSeq = true, r.seq
			r.logf("-- simulated deadline passed at event %d", r.seq)
		}
	}
	if ev.Kind == "setrule" {
		r.firingRule, r.firingStart, r.firingWrites = ev.Path, r.seq, 0
		r.phase, r.curRule = "action", ev.Path
		if r.cancelled && r.cancelSeq < r.seq {
			r.firingAfterCancel = true
		}
		if r.sc.Knobs.Listeners == 0 {
			r.em.onExec(r, ev.Path)
		}
	}
	if r.phase == "eval" && r.cancelled && r.visitSeq > r.cancelSeq {
		switch ev.Kind {
		case "get", "field", "index", "key", "call":
			r.evalAfterCancel = true
		}
	}
	if ev.Write {
		switch {
		case r.mode == "fetch":
			r.violate("C11.write-in-fetch", fmt.Sprintf("FetchMatchingRules performed a write: %s", ev))
		case r.phase != "action":
			r.violate("C03.write-outside-firing", fmt.Sprintf("write event outside any firing: %s", ev))
		case r.cancelled && r.firingStart >= r.cancelSeq:
			r.violate("C15.action-after-cancel", fmt.Sprintf("action event %s belongs to a firing of %s that started at event %d, after cancellation at event %d", ev, r.firingRule, r.firingStart, r.cancelSeq))
		}
	}
	r.res.TimeAt = append(r.res.TimeAt, r.now)
	eligible := false
	if r.phase == "eval" || r.phase == "action" {
		switch ev.Kind {
		case "get", "field", "index", "key", "call", "setfield", "setindex", "setkey":
			eligible = true
		case "add":
			eligible = ev.Path != "DEFUNC"
		}
	}
	if eligible {
		r.res.Eligible = append(r.res.Eligible, EvInfo{r.seq, ev.Kind, r.phase})
	}
	// faults (a fault planned at an event that is not inside an evaluation or a firing is ignored,
	// so that any integer is a valid fault position for the shrinker)
	for _, f := range r.sc.Faults {
		if f.At == r.seq && eligible {
			if f.Kind == "nilfact" && ev.Kind != "get" {
				continue
			}
			fr := faultRec{seq: r.seq, kind: f.Kind, phase: r.phase, rule: r.curRule, w: r.firingWrites}
			r.faults = append(r.faults, fr)
			r.res.Faults[f.Kind+"@"+r.phase]++
			r.logf("-- fault %s at event %d (%s of %s)", f.Kind, r.seq, r.phase, r.curRule)
			r.em.onFault(r, fr)
			switch f.Kind {
			case "err":
				return seams.FaultErr
			case "panic":
				return seams.FaultPanic
			case "nilfact":
				return seams.FaultNil
			}
		}
	}
	if ev.Write && r.phase == "action" {
		r.em.onWriteEvent(r.firingRule, r.firingWrites)
		r.firingWrites++
	}
	return seams.NoFault
}

// order implements simhook.Order for the engine loops.
func (r *run) order(site string, keys []string) []string {
	if (site != "engine.exec" && site != "engine.fetch") || r.aborted != "" || r.muted {
		return keys
	}
	var perm []int
	if r.loopIdx < len(r.sc.Schedule) {
		perm = r.sc.Schedule[r.loopIdx]
	}
	r.loopIdx++
	out := ApplyPerm(keys, perm)
	shown := make([]string, len(out))
	for i, k := range out {
		shown[i] = normName(k)
	}
	r.res.SchedHash = core.Mix(r.res.SchedHash, core.HashStr(strings.Join(shown, ",")))
	r.logf("-- loop %d order %s", r.loopIdx, strings.Join(shown, ","))
	if site == "engine.exec" {
		r.em.onLoop(r)
	}
	return out
}

// ApplyPerm orders keys by perm (indices into keys); out-of-range or duplicate entries are
// dropped and missing indices appended in ascending order, so any int list is a valid schedule.
func ApplyPerm(keys []string, perm []int) []string {
	out := make([]string, 0, len(keys))
	used := make([]bool, len(keys))
	for _, p := range perm {
		if p >= 0 && p < len(keys) && !used[p] {
			used[p] = true
			out = append(out, keys[p])
		}
	}
	for i, k := range keys {
		if !used[i] {
			out = append(out, k)
		}
	}
	return out
}

// visit implements simhook.Step for the engine loops: the loop body is about to receive rule key.
func (r *run) visit(site, key string) {
	if (site != "engine.exec" && site != "engine.fetch") || r.aborted != "" || r.muted {
		return
	}
	r.phase, r.curRule, r.visitSeq = "eval", key, r.seq+1
	r.logf("-- visit %s", normName(key))
	if r.yield != nil {
		r.yield("visit")
	}
}

// Listener callbacks -----------------------------------------------------------------------

// callbackCancel implements cancellation from inside a listener callback.
func (r *run) callbackCancel(id int, what string) {
	if id != 0 {
		return
	}
	r.callbacks++
	r.res.Callbacks = r.callbacks
	if !r.cancelled && r.sc.CancelAtCallback > 0 && r.callbacks == r.sc.CancelAtCallback {
		// takes effect after the last seam event and before the next one
		r.cancelled, r.cancelSeq = true, r.seq
		r.cancelInCallback = what
		r.logf("-- cancel() inside listener callback %d (%s)", r.callbacks, what)
	}
}

func (r *run) OnBegin(id int, cycle uint64) {
	if r.aborted != "" {
		return
	}
	r.callbackCancel(id, "begin")
	r.lsnSeq[id] = append(r.lsnSeq[id], fmt.Sprintf("B%d", cycle))
	if id == 0 {
		r.logf("-- listener Begin(%d)", cycle)
		if k := r.sc.Knobs.RemoveAtCycle; k > 0 && k == cycle && r.kb != nil && !r.muted {
			// the application removes a rule from the instance while Execute is running (from a callback)
			r.logf("-- listener removes rule %s", r.sc.Knobs.RemoveAtCycleRule)
			r.kb.RemoveRuleEntry(r.sc.Knobs.RemoveAtCycleRule)
			r.em.removed[r.sc.Knobs.RemoveAtCycleRule] = true
			r.res.probe("rule-removed-during-execute")
		}
		r.em.onBegin(r, cycle)
	}
}

func (r *run) OnEval(id int, cycle uint64, re *ast.RuleEntry, cand bool) {
	if r.aborted != "" {
		return
	}
	r.callbackCancel(id, "eval")
	r.lsnSeq[id] = append(r.lsnSeq[id], fmt.Sprintf("E%d:%s:%v", cycle, re.RuleName, cand))
	if id == 0 {
		r.logf("-- listener Eval(%d,%s,%v)", cycle, re.RuleName, cand)
		r.phase = "idle"
		r.em.onEval(r, cycle, re, cand)
	}
}

func (r *run) OnExec(id int, cycle uint64, re *ast.RuleEntry) {
	if r.aborted != "" {
		return
	}
	r.callbackCancel(id, "exec")
	r.lsnSeq[id] = append(r.lsnSeq[id], fmt.Sprintf("X%d:%s", cycle, re.RuleName))
	if id == 0 {
		r.logf("-- listener Exec(%d,%s)", cycle, re.RuleName)
		r.em.onExecCallback(r, cycle, re)
	}
}

// otherInstance, when set, is the instance the judged call's data context is used with first
// (Knobs.OtherInstanceFirst). Single-threaded: Sim E runs one scenario at a time.
var otherInstance *ast.KnowledgeBase

// Run executes one Sim E scenario.
func Run(sc *core.Scenario) *Result {
	res := &Result{Probes: map[string]int64{}, Faults: map[string]int{}, MethodCalls: map[string]int{}}
	defer func() {
		simhook.Order, simhook.Step, simhook.ID = nil, nil, nil
	}()
	InstallIDs("n")
	simhook.Order = func(_ string, keys []string) []string { return keys } // sorted unless a simulation says otherwise
	text := grl.PrintProgram(sc.Program)
	lib, err := BuildLibraryOf(sc.Program, sc.Knobs.SplitAt)
	if err != nil {
		res.HarnessErr = fmt.Sprintf("generated program rejected by the builder: %v\n%s", err, text)
		return res
	}
	if !sc.Knobs.RemoveOnInstance {
		for _, name := range sc.Removed {
			lib.RemoveRuleEntry(name, KBName, KBVersion)
		}
	}
	kb, err := Instance(lib, sc.Knobs.Source)
	if err != nil {
		res.Violations = append(res.Violations, core.Violation{Oracle: "C09.instance-failed", Property: "C09", Message: fmt.Sprintf("no instance via %q: %v", sc.Knobs.Source, err)})
		return res
	}
	if sc.Knobs.RemoveOnInstance {
		for _, name := range sc.Removed {
			kb.RemoveRuleEntry(name)
		}
	}
	if sc.Knobs.OtherInstanceFirst {
		if other, err := lib.NewKnowledgeBaseInstance(KBName, KBVersion); err == nil {
			otherInstance = other
			defer func() { otherInstance = nil }()
		}
	}
	// earlier calls on the same instance (their own results are not judged here): whatever they
	// leave behind must not influence the call under test
	for i, c := range sc.Calls {
		p := &core.Scenario{Property: sc.Property, Sim: "E", Program: sc.Program, Facts: c.Facts, Schedule: c.Schedule,
			Removed: sc.Removed, LatSeed: sc.LatSeed + uint64(i) + 1, CancelAt: c.CancelAt,
			Knobs: core.Knobs{MaxCycle: c.MaxCycle, RetErr: c.RetErr, Listeners: 1, Mode: c.Mode}}
		RunOn(p, kb, &Result{Probes: map[string]int64{}, Faults: map[string]int{}, MethodCalls: map[string]int{}})
		res.Probes["preceded-by-"+c.Mode]++
	}
	RunOn(sc, kb, res)
	return res
}

// PrepareFacts builds the live fact objects and the real data context for a scenario.
func prepareFacts(f *grl.Facts, hooks *grl.Hooks) (*realFacts, error) {
	st := grl.NewState(f)
	rf := &realFacts{ctx: ast.NewDataContext(), has: map[string]bool{}}
	for k, v := range st {
		switch k {
		case "F":
			rf.f = v.(*grl.Fact)
			rf.pnF = rf.f.PN
			rf.f.Bind("F", hooks)
			if err := rf.ctx.Add("F", rf.f); err != nil {
				return nil, err
			}
		case "G":
			rf.g = v.(*grl.Fact)
			rf.pnG = rf.g.PN
			rf.g.Bind("G", hooks)
			if err := rf.ctx.Add("G", rf.g); err != nil {
				return nil, err
			}
		case "J":
			omit := false
			for _, o := range f.Omit {
				if o == "J" {
					omit = true
				}
			}
			if !omit {
				if err := rf.ctx.AddJSON("J", f.J); err != nil {
					return nil, err
				}
			}
		default:
			if err := rf.ctx.Add(k, v); err != nil {
				return nil, err
			}
		}
	}
	return rf, nil
}

// RunOn executes the scenario's call on an existing instance (also used by the history simulation).
func RunOn(sc *core.Scenario, kb *ast.KnowledgeBase, res *Result) {
	h := Prepare(sc, kb, res)
	if h == nil {
		return
	}
	prevOrder, prevStep := simhook.Order, simhook.Step
	simhook.Order = h.Order
	simhook.Step = h.Visit
	h.Execute()
	simhook.Order, simhook.Step = prevOrder, prevStep
}

// Handle is a prepared run whose hooks the caller routes itself (used by the concurrency
// simulation, where several runs are alive at once and a dispatcher owns the global hooks).
type Handle struct {
	r   *run
	kb  *ast.KnowledgeBase
	eng *engine.GruleEngine // optional: an engine value supplied (and possibly shared) by the caller
}

// SetEngine makes the run use the caller's engine value instead of a private one (the scenario must
// then use zero listeners and the engine's own MaxCycle).
func (h *Handle) SetEngine(e *engine.GruleEngine) { h.eng = e }

func (h *Handle) Order(site string, keys []string) []string { return h.r.order(site, keys) }
func (h *Handle) Visit(site, key string)                     { h.r.visit(site, key) }

// SetYield installs a function called at every seam event, hook call and listener callback.
func (h *Handle) SetYield(f func(site string)) { h.r.yield = f }

// Prepare builds the run state (facts, model, wrappers) without touching global hooks.
func Prepare(sc *core.Scenario, kb *ast.KnowledgeBase, res *Result) *Handle {
	r := &run{sc: sc, res: res, mode: sc.Knobs.Mode, phase: "idle"}
	if r.mode == "" {
		r.mode = "execute"
	}
	nRules := len(sc.Program.Rules)
	r.maxEvent = 4000 + int(sc.Knobs.MaxCycle+2)*(nRules+1)*600
	r.factHooks = &grl.Hooks{OnCall: func(fact, method string, args []interface{}) {
		if r.muted {
			return // a preliminary, unjudged call: its method invocations are not this call's
		}
		key := fact + "." + method
		res.MethodCalls[key]++
		r.logf("-- method %s.%s%v", fact, method, args)
		r.em.onMethod(r, fact, method)
	}}
	first := sc.Facts
	if sc.Knobs.RefetchFrom != nil && r.mode == "fetch" {
		first = sc.Knobs.RefetchFrom
	}
	rf, err := prepareFacts(first, r.factHooks)
	if err != nil {
		res.HarnessErr = "facts: " + err.Error()
		return nil
	}
	r.real = rf
	r.em = newEModel(sc)
	r.em.before = grl.Canon(rf.State())
	r.lsnSeq = make([][]string, sc.Knobs.Listeners)
	r.kb = kb
	return &Handle{r: r, kb: kb}
}

// Execute calls the engine and judges the outcome.
func (h *Handle) Execute() {
	r, kb := h.r, h.kb
	sc, res, rf := r.sc, r.res, r.real
	nl := sc.Knobs.Listeners
	dctx := &seams.DataContext{Inner: rf.ctx, Sink: r}
	eng := &engine.GruleEngine{MaxCycle: sc.Knobs.MaxCycle, ReturnErrOnFailedRuleEvaluation: sc.Knobs.RetErr}
	for i := 0; i < nl; i++ {
		eng.Listeners = append(eng.Listeners, &seams.Listener{ID: i, Sink: r})
	}
	if h.eng != nil {
		eng = h.eng
	}
	ctx := &simCtx{Context: context.Background(), r: r}
	if sc.CancelAt == -1 {
		r.cancelled, r.cancelSeq = true, 0
	}

	if sc.Knobs.OtherInstanceFirst && otherInstance != nil && otherInstance != kb {
		// the data context has been used before, with another instance (no action runs in a fetch: the facts
		// are as they were)
		r.muted = true
		func() {
			defer func() { _ = recover() }()
			_, _ = (&engine.GruleEngine{MaxCycle: 1}).FetchMatchingRules(dctx, otherInstance)
		}()
		r.muted = false
		res.Probes["data-context-used-with-another-instance-first"]++
	}
	if sc.Knobs.RefetchFrom != nil && r.mode == "fetch" {
		// unjudged first fetch on the old values, then the caller changes its facts in place
		r.muted = true
		func() {
			defer func() { _ = recover() }()
			_, _ = eng.FetchMatchingRules(dctx, kb)
		}()
		r.muted = false
		if err := rf.overwrite(sc.Facts, r.factHooks); err != nil {
			res.HarnessErr = "refetch: " + err.Error()
			return
		}
		r.em.before = grl.Canon(rf.State())
		res.Probes["refetch-on-same-data-context"]++
	}
	var retErr error
	var matched []*ast.RuleEntry
	panicked := func() (p interface{}) {
		defer func() { p = recover() }()
		if r.mode == "fetch" {
			matched, retErr = eng.FetchMatchingRules(dctx, kb)
		} else {
			retErr = eng.ExecuteWithContext(ctx, dctx, kb)
		}
		return nil
	}()

	res.Events = r.seq
	res.SimNs = r.now
	res.Err = retErr
	switch {
	case r.aborted == "envelope":
		res.End = "discarded-out-of-envelope"
		res.Violations = nil
		return
	case r.aborted == "runaway":
		r.aborted = ""
		r.violate("C06.runaway", fmt.Sprintf("run did not return within the step bound (%s): %d events, MaxCycle=%d", r.abortWhy, r.seq, sc.Knobs.MaxCycle))
		res.End = "runaway"
	case panicked != nil:
		r.violate("C14.panic-escaped", fmt.Sprintf("panic left the engine: %v", panicked))
		res.End = "panic"
	case r.mode == "fetch":
		r.em.onFetchReturn(r, matched, retErr)
	default:
		r.em.onReturn(r, retErr)
	}
	// all listeners must have seen the same sequence
	for i := 1; i < nl; i++ {
		if strings.Join(r.lsnSeq[i], " ") != strings.Join(r.lsnSeq[0], " ") {
			r.violate("C06.listeners-disagree", fmt.Sprintf("listener %d saw a different callback sequence than listener 0", i))
		}
	}
	res.Cycles = r.em.cycle
	res.Firings = r.em.firings
	res.Finger = core.Mix(r.h, uint64(len(res.Violations)))
	res.FinalReal = grl.Canon(rf.State())
	tail := r.logAll
	if len(tail) > 60 {
		tail = tail[len(tail)-60:]
	}
	res.Log = tail
	for _, m := range matched {
		res.Matched = append(res.Matched, m.RuleName)
	}
	if r.mode == "fetch" && sc.Property == "C11" && len(matched) > 0 && panicked == nil && r.aborted == "" {
		// the caller keeps the returned slice: later calls (unjudged) must not reach into it
		r.muted = true
		func() {
			defer func() { _ = recover() }()
			// no listeners: these calls are not judged. Two cycles at most: nothing bounds what unjudged actions
			// do to the facts (a string doubled by three actions in each of twelve cycles does not fit in memory)
			eng2 := &engine.GruleEngine{MaxCycle: 2}
			_, _ = eng2.FetchMatchingRules(dctx, kb)
			_ = eng2.Execute(dctx, kb)
			_, _ = eng2.FetchMatchingRules(dctx, kb)
		}()
		r.muted = false
		var now []string
		for _, m := range matched {
			if m == nil {
				now = append(now, "<nil>")
			} else {
				now = append(now, m.RuleName)
			}
		}
		res.Probes["fetch.result-reinspected-after-later-calls"]++
		if strings.Join(now, ",") != strings.Join(res.Matched, ",") {
			r.violate("C11.result-changed-by-later-call", fmt.Sprintf("FetchMatchingRules returned [%s]; after a later Fetch, Execute and Fetch on the same instance the very same slice reads [%s]: the result handed to the caller is storage the engine keeps using",
				strings.Join(res.Matched, ","), strings.Join(now, ",")))
		}
	}
}

// normName hides the identifier part of a tombstone name: it is an id, not behaviour.
func normName(k string) string {
	if strings.HasPrefix(k, "Deleted_") {
		return "Deleted_#"
	}
	return k
}

// helpers ------------------------------------------------------------------------------------

func sortedNames(m map[string]bool) []string {
	out := make([]string, 0, len(m))
	for k, v := range m {
		if v {
			out = append(out, k)
		}
	}
	sort.Strings(out)
	return out
}

func isCtxErr(err error) bool {
	return errors.Is(err, context.Canceled) || errors.Is(err, context.DeadlineExceeded)
}

var _ = reflect.ValueOf

func jsonOf(v interface{}) (string, error) {
	b, err := json.Marshal(v)
	return string(b), err
}
