package hsim

import (
	"bytes"
	"encoding/json"
	"errors"
	"fmt"
	"sort"
	"strings"

	"github.com/hyperjumptech/grule-rule-engine/ast"
	"github.com/hyperjumptech/grule-rule-engine/builder"
	"github.com/hyperjumptech/grule-rule-engine/engine"
	"github.com/hyperjumptech/grule-rule-engine/pkg"
	"github.com/hyperjumptech/grule-rule-engine/pkg/simhook"

	"grulesim/sim/core"
	"grulesim/sim/dsim"
	"grulesim/sim/esim"
	"grulesim/sim/grl"
)

// libhist.go: histories of build / remove / re-build / instantiate / store / load operations on
// libraries holding one or several knowledge bases, with an executable model of which rule names
// are alive in which knowledge base and which text version each runs (C16), optionally mixed with
// malformed resources and failing readers (C17).

// MRule is a marker rule: `when F.B == true then F.M["<Name>"] = <U>; Retract("<Name>");`.
// Executing a probe fact set therefore reveals exactly which names are alive and which text
// version (U is unique per built text) each of them runs.
type MRule struct {
	Name string  `json:"name"`
	Desc *string `json:"desc,omitempty"`
	Sal  *int64  `json:"sal,omitempty"`
	U    int64   `json:"u"`
	// StrLit (optional): a string literal, exactly as written in the document (quotes and escapes included),
	// assigned to F.MS["<Name>"]; Str is the value it denotes.
	StrLit string `json:"str_lit,omitempty"`
	Str    string `json:"str,omitempty"`
}

// LOp is one operation of a library history.
type LOp struct {
	Op        string  `json:"op"` // build | buildbad | buildfail | rmlib | rmbp | inst | store | load
	Lib       int     `json:"lib"`
	KB        int     `json:"kb"`
	Rules     []MRule `json:"rules,omitempty"`
	Text      string  `json:"text,omitempty"` // exact resource text (decorated valid text, or malformed text)
	BadClass  string  `json:"bad_class,omitempty"`
	Syntactic bool    `json:"syntactic,omitempty"` // the defect is a syntax problem: a GruleErrorReporter is expected
	Rule      string  `json:"rule,omitempty"`
	FailAt    int     `json:"fail_at,omitempty"`
	ChunkSeed uint64  `json:"chunk_seed,omitempty"`
	Image     int     `json:"image,omitempty"`
	IntoLib   int     `json:"into_lib,omitempty"`
	Overwrite bool    `json:"overwrite,omitempty"`
	// Multi > 0: a "build" op hands its rules over as TWO resources (rules[:Multi], rules[Multi:]) to
	// BuildRuleFromResources instead of one resource to BuildRuleFromResource.
	Multi int `json:"multi,omitempty"`
	// FreshBuilder: the build uses a new RuleBuilder instead of the library's long-lived one.
	FreshBuilder bool `json:"fresh_builder,omitempty"`
}

// LExtra is the payload of a library-history scenario.
type LExtra struct {
	KBs [][2]string `json:"kbs"` // (name, version) pairs
	Ops []LOp       `json:"ops"`
}

func LExtraOf(sc *core.Scenario) (*LExtra, error) {
	var ex LExtra
	if err := json.Unmarshal(sc.Extra, &ex); err != nil {
		return nil, err
	}
	return &ex, nil
}

func SetLExtra(sc *core.Scenario, ex *LExtra) {
	b, _ := json.Marshal(ex)
	sc.Extra = b
}

// PlainText prints marker rules without decoration.
func PlainText(rules []MRule) string {
	var b strings.Builder
	for _, r := range rules {
		b.WriteString("rule " + r.Name)
		if r.Desc != nil {
			b.WriteString(fmt.Sprintf(" %q", *r.Desc))
		}
		if r.Sal != nil {
			b.WriteString(fmt.Sprintf(" salience %d", *r.Sal))
		}
		extra := ""
		if r.StrLit != "" {
			extra = fmt.Sprintf("    F.MS[%q] = %s;\n", r.Name, r.StrLit)
		}
		b.WriteString(fmt.Sprintf(" {\n  when\n    F.B == true\n  then\n    F.M[%q] = %d;\n%s    Retract(%q);\n}\n\n", r.Name, r.U, extra, r.Name))
	}
	return b.String()
}

type mRule struct {
	Str  string
	HasStr bool
	U    int64
	Sal  int64
	Desc string
	Dead bool
}

type mKB map[string]*mRule

func (k mKB) clone() mKB {
	c := mKB{}
	for n, r := range k {
		x := *r
		c[n] = &x
	}
	return c
}

func (k mKB) alive() []string {
	var out []string
	for n, r := range k {
		if !r.Dead {
			out = append(out, n)
		}
	}
	sort.Strings(out)
	return out
}

// LibResult is the outcome of a library history.
type LibResult struct {
	Violations []core.Violation
	Harness    string
	Probes     map[string]int64
	Finger     uint64
	Ops        int
}

type libRun struct {
	sc     *core.Scenario
	ex     *LExtra
	prop   string
	libs   []*ast.KnowledgeLibrary
	model  []map[int]mKB // per library: kb index -> model
	images []struct {
		data []byte
		kb   int
		snap mKB
	}
	res      *LibResult
	rejected bool // some build has been rejected in this history
	builders map[int]*builder.RuleBuilder // one long-lived builder per library, as applications keep them
}

// builderFor returns the library's long-lived builder, or a new one when the operation asks for it.
func (lr *libRun) builderFor(li int, fresh bool) *builder.RuleBuilder {
	if fresh {
		lr.res.Probes["build.new-builder"]++
		return builder.NewRuleBuilder(lr.libs[li])
	}
	if lr.builders == nil {
		lr.builders = map[int]*builder.RuleBuilder{}
	}
	if lr.builders[li] == nil {
		lr.builders[li] = builder.NewRuleBuilder(lr.libs[li])
	} else {
		lr.res.Probes["build.builder-reused"]++
	}
	return lr.builders[li]
}

func (lr *libRun) violate(oracle, msg string) {
	o := lr.prop + "." + oracle
	for _, v := range lr.res.Violations {
		if v.Oracle == o {
			return
		}
	}
	lr.res.Violations = append(lr.res.Violations, core.Violation{Oracle: o, Property: lr.prop, Message: msg})
}

func probeFacts() *grl.Fact {
	return &grl.Fact{B: true, M: map[string]int64{}, MS: map[string]string{}, A: []int64{0, 0, 0}, AS: []string{"", "", ""}, AF: []float32{0, 0, 0}, P: &grl.Sub{Q: &grl.Leaf{}}}
}

// probeKB checks one knowledge base (or a given instance) against its model. adopt lists rule names
// whose presence the statement leaves open after the last operation: the model takes what it sees.
func (lr *libRun) probeKB(li, ki int, when string, inst *ast.KnowledgeBase, mk mKB, adopt map[string]MRule) {
	name, ver := lr.ex.KBs[ki][0], lr.ex.KBs[ki][1]
	where := fmt.Sprintf("%s: library %d, knowledge base %s:%s", when, li, name, ver)
	lib := lr.libs[li]
	defer func() {
		if p := recover(); p != nil {
			lr.violate("probe-panicked", fmt.Sprintf("%s: instantiating or storing the knowledge base panicked: %v", where, p))
		}
	}()
	if inst == nil {
		var err error
		inst, err = lib.NewKnowledgeBaseInstance(name, ver)
		if err != nil {
			lr.violate("instantiate-failed", fmt.Sprintf("%s: NewKnowledgeBaseInstance failed: %v", where, err))
			return
		}
		// the direct probe first: it is the one that adopts what the statement leaves open
		lr.fetchExec(where, inst, mk, adopt)
		// stored and loaded again it must still be the same knowledge base
		var buf bytes.Buffer
		if err := lib.StoreKnowledgeBaseToWriter(&buf, name, ver); err != nil {
			lr.violate("store-failed", fmt.Sprintf("%s: StoreKnowledgeBaseToWriter failed: %v", where, err))
		} else {
			l2 := ast.NewKnowledgeLibrary()
			if _, err := l2.LoadKnowledgeBaseFromReader(bytes.NewReader(buf.Bytes()), true); err != nil {
				lr.violate("load-failed", fmt.Sprintf("%s: the stored knowledge base does not load: %v", where, err))
			} else if i2, err := l2.NewKnowledgeBaseInstance(name, ver); err != nil {
				lr.violate("load-failed", fmt.Sprintf("%s: the stored and loaded knowledge base cannot be instantiated: %v", where, err))
			} else {
				lr.fetchExec(where+" (after store and load)", i2, mk, nil)
			}
		}
		return
	}
	lr.fetchExec(where, inst, mk, adopt)
}

func (lr *libRun) fetchExec(where string, inst *ast.KnowledgeBase, mk mKB, adopt map[string]MRule) {
	defer func() {
		if p := recover(); p != nil {
			lr.violate("probe-panicked", fmt.Sprintf("%s: using the knowledge base panicked: %v", where, p))
		}
	}()
	eng := &engine.GruleEngine{MaxCycle: 200}
	f := probeFacts()
	dc := ast.NewDataContext()
	_ = dc.Add("F", f)
	matched, err := eng.FetchMatchingRules(dc, inst)
	if err != nil {
		lr.violate("probe-fetch-error", fmt.Sprintf("%s: FetchMatchingRules failed: %v", where, err))
		return
	}
	got := map[string]int{}
	for i, m := range matched {
		got[m.RuleName]++
		if i > 0 && matched[i-1].Salience < m.Salience {
			lr.violate("fetch-order", fmt.Sprintf("%s: matched rules not ordered by salience", where))
		}
	}
	// adoption of what the statement leaves open
	for n, r := range adopt {
		if cur, ok := mk[n]; ok && !cur.Dead {
			continue // an existing alive rule is never up for adoption
		}
		if got[n] > 0 {
			nr := &mRule{U: r.U, Str: r.Str, HasStr: r.StrLit != ""}
			if r.Sal != nil {
				nr.Sal = *r.Sal
			}
			if r.Desc != nil {
				nr.Desc = *r.Desc
			} else {
				nr.Desc = "No Description"
			}
			mk[n] = nr
			lr.res.Probes["adopted-partial-rule"]++
		}
	}
	want := mk.alive()
	var gs []string
	for n, c := range got {
		if c > 1 {
			lr.violate("duplicate-active-rule", fmt.Sprintf("%s: rule %s matched %d times: two active rules share a name", where, n, c))
		}
		gs = append(gs, n)
	}
	sort.Strings(gs)
	if strings.Join(gs, ",") != strings.Join(want, ",") {
		var dead []string
		for _, n := range gs {
			if r, ok := mk[n]; ok && r.Dead {
				dead = append(dead, n)
			}
		}
		if len(dead) > 0 {
			lr.violate("removed-rule-matches", fmt.Sprintf("%s: removed rule(s) %v match again; matching %v, alive per model %v", where, dead, gs, want))
		} else {
			lr.violate("wrong-alive-set", fmt.Sprintf("%s: matching rules %v, alive per model %v", where, gs, want))
		}
		return
	}
	for _, m := range matched {
		r := mk[m.RuleName]
		if int64(m.Salience) != r.Sal || m.RuleDescription != r.Desc {
			lr.violate("metadata", fmt.Sprintf("%s: rule %s has salience %d description %q, its text says %d %q", where, m.RuleName, m.Salience, m.RuleDescription, r.Sal, r.Desc))
		}
	}
	// execution reveals the text version every alive rule runs
	f2 := probeFacts()
	dc2 := ast.NewDataContext()
	_ = dc2.Add("F", f2)
	if err := eng.Execute(dc2, inst); err != nil {
		lr.violate("probe-execute-error", fmt.Sprintf("%s: Execute failed: %v", where, err))
		return
	}
	for _, n := range want {
		if f2.M[n] != mk[n].U {
			lr.violate("wrong-text-version", fmt.Sprintf("%s: rule %s wrote %d, its current text writes %d (an older or foreign text is running)", where, n, f2.M[n], mk[n].U))
		}
	}
	for _, n := range want {
		if mk[n].HasStr && f2.MS[n] != mk[n].Str {
			lr.violate("string-literal-value", fmt.Sprintf("%s: rule %s assigned %q, its string literal denotes %q", where, n, f2.MS[n], mk[n].Str))
		}
	}
	for n, u := range f2.M {
		if r, ok := mk[n]; !ok || r.Dead {
			lr.violate("removed-rule-fires", fmt.Sprintf("%s: rule %s fired (wrote %d) although it is not alive", where, n, u))
		}
	}
	lr.res.Finger = core.Mix(lr.res.Finger, core.HashStr(strings.Join(gs, ",")), uint64(len(f2.M)))
}

func (lr *libRun) probeAll(when string, adoptLib, adoptKB int, adopt map[string]MRule) {
	for li := range lr.libs {
		var kis []int
		for ki := range lr.model[li] {
			kis = append(kis, ki)
		}
		sort.Ints(kis)
		for _, ki := range kis {
			var ad map[string]MRule
			if li == adoptLib && ki == adoptKB {
				ad = adopt
			}
			lr.probeKB(li, ki, when, nil, lr.model[li][ki], ad)
		}
	}
}

// RunLib executes a library history.
func RunLib(sc *core.Scenario) *LibResult {
	res := &LibResult{Probes: map[string]int64{}}
	ex, err := LExtraOf(sc)
	if err != nil {
		res.Harness = err.Error()
		return res
	}
	defer func() { simhook.Order, simhook.Step, simhook.ID = nil, nil, nil }()
	esim.InstallIDs("n")
	simhook.Order = func(_ string, keys []string) []string { return keys }
	lr := &libRun{sc: sc, ex: ex, prop: sc.Property, res: res}
	lr.libs = []*ast.KnowledgeLibrary{ast.NewKnowledgeLibrary()}
	lr.model = []map[int]mKB{{}}
	for oi, op := range ex.Ops {
		lr.step(oi, op)
	}
	return res
}

// step executes one operation; a panic that leaves a library call is a violation, not a crash.
func (lr *libRun) step(oi int, op LOp) {
	res, ex := lr.res, lr.ex
	defer func() {
		if p := recover(); p != nil {
			lr.violate("operation-panicked", fmt.Sprintf("op %d (%s) panicked: %v", oi+1, op.Op, p))
		}
	}()
	for once := true; once; once = false {
		if op.Lib >= len(lr.libs) || op.KB >= len(ex.KBs) {
			continue
		}
		res.Ops++
		lib := lr.libs[op.Lib]
		name, ver := ex.KBs[op.KB][0], ex.KBs[op.KB][1]
		when := fmt.Sprintf("after op %d (%s)", oi+1, op.Op)
		res.Probes["op."+op.Op]++
		adopt := map[string]MRule{}
		switch op.Op {
		case "build", "buildbad", "buildfail":
			text := op.Text
			if text == "" {
				text = PlainText(op.Rules)
			}
			var resrc pkg.Resource = pkg.NewBytesResource([]byte(text))
			if op.Op == "buildfail" || op.ChunkSeed != 0 {
				resrc = pkg.NewReaderResource(&dsim.Reader{Image: []byte(text), FailAt: op.FailAt, ChunkSeed: op.ChunkSeed, MaxChunk: 5, EOFWithData: op.ChunkSeed%2 == 1})
			}
			mk := lr.model[op.Lib][op.KB]
			if mk == nil && op.Op == "buildfail" {
				// the resource cannot even be read: the knowledge base is not created
				var berr error
				func() {
					defer func() { _ = recover() }()
					berr = lr.builderFor(op.Lib, op.FreshBuilder).BuildRuleFromResource(name, ver, resrc)
				}()
				if berr == nil {
					lr.violate("reader-error-swallowed", fmt.Sprintf("op %d: the resource reader failed at read %d but BuildRuleFromResource returned nil", oi+1, op.FailAt))
				}
				if _, ok := lib.Library[ast.GetKnowledgeBaseKey(name, ver)]; ok {
					lr.model[op.Lib][op.KB] = mKB{}
				}
				lr.probeAll(when, -1, -1, nil)
				continue
			}
			if mk == nil {
				mk = mKB{}
				lr.model[op.Lib][op.KB] = mk // GetKnowledgeBase creates the knowledge base on first use
			}
			var berr error
			multi := op.Op == "build" && op.Text == "" && op.Multi > 0 && op.Multi < len(op.Rules)
			panicked := func() (p interface{}) {
				defer func() { p = recover() }()
				if multi {
					res.Probes["build.two-resources"]++
					berr = lr.builderFor(op.Lib, op.FreshBuilder).BuildRuleFromResources(name, ver, []pkg.Resource{
						pkg.NewBytesResource([]byte(PlainText(op.Rules[:op.Multi]))), pkg.NewBytesResource([]byte(PlainText(op.Rules[op.Multi:])))})
					return nil
				}
				berr = lr.builderFor(op.Lib, op.FreshBuilder).BuildRuleFromResource(name, ver, resrc)
				return nil
			}()
			if panicked != nil {
				lr.violate("build-panicked", fmt.Sprintf("op %d: BuildRuleFromResource panicked instead of returning an error (%s): %v", oi+1, op.BadClass, panicked))
				berr = fmt.Errorf("panic")
			}
			switch op.Op {
			case "buildfail":
				if berr == nil {
					lr.violate("reader-error-swallowed", fmt.Sprintf("op %d: the resource reader failed at read %d but BuildRuleFromResource returned nil", oi+1, op.FailAt))
				}
				lr.rejected = true
			case "buildbad":
				lr.rejected = true
				res.Probes["bad."+op.BadClass]++
				if berr == nil {
					lr.violate("malformed-accepted", fmt.Sprintf("op %d: malformed text (%s) was accepted:\n%s", oi+1, op.BadClass, text))
				} else if op.Syntactic && panicked == nil {
					var rep *pkg.GruleErrorReporter
					if !errors.As(berr, &rep) || len(rep.Errors) == 0 {
						lr.violate("no-error-reporter", fmt.Sprintf("op %d: syntax problem (%s) did not yield a GruleErrorReporter with at least one entry: %T %v", oi+1, op.BadClass, berr, berr))
					}
				}
				for _, r := range op.Rules { // complete rules of the rejected text may or may not have been added
					adopt[r.Name] = r
				}
			case "build":
				dup := false
				seen := map[string]bool{}
				for _, r := range op.Rules {
					cur, ok := mk[r.Name]
					if (ok && !cur.Dead) || seen[r.Name] {
						dup = true
						if seen[r.Name] && !(ok && !cur.Dead) {
							// duplicate inside the resource: the first occurrence is the existing rule
						}
						continue
					}
					seen[r.Name] = true
				}
				if !dup {
					if berr != nil {
						lr.violate("valid-rejected", fmt.Sprintf("op %d: valid resource rejected: %v\n%s", oi+1, berr, text))
						for _, r := range op.Rules {
							adopt[r.Name] = r
						}
					} else {
						for _, r := range op.Rules {
							nr := &mRule{U: r.U, Desc: "No Description", Str: r.Str, HasStr: r.StrLit != ""}
							if r.Sal != nil {
								nr.Sal = *r.Sal
							}
							if r.Desc != nil {
								nr.Desc = *r.Desc
							}
							mk[r.Name] = nr
						}
					}
				} else {
					res.Probes["build.duplicate-name"]++
					if berr == nil {
						lr.violate("duplicate-accepted", fmt.Sprintf("op %d: the resource builds a rule whose name already exists, BuildRuleFromResource returned nil:\n%s", oi+1, text))
					}
					lr.rejected = true
					// what happens to the other rules of the resource is left open: adopt what is seen
					first := map[string]bool{}
					for _, r := range op.Rules {
						cur, ok := mk[r.Name]
						if (ok && !cur.Dead) || first[r.Name] {
							continue
						}
						first[r.Name] = true
						adopt[r.Name] = r
					}
				}
			}
			lr.probeAll(when, op.Lib, op.KB, adopt)
			continue
		case "rmlib":
			lib.RemoveRuleEntry(op.Rule, name, ver)
			if mk := lr.model[op.Lib][op.KB]; mk != nil {
				if r, ok := mk[op.Rule]; ok {
					r.Dead = true
					res.Probes["removed-alive-rule"]++
				}
			}
		case "rmbp":
			if mk := lr.model[op.Lib][op.KB]; mk != nil { // only for knowledge bases that exist
				lib.GetKnowledgeBase(name, ver).RemoveRuleEntry(op.Rule)
				if r, ok := mk[op.Rule]; ok {
					r.Dead = true
					res.Probes["removed-alive-rule"]++
				}
			}
		case "inst":
			mk := lr.model[op.Lib][op.KB]
			if mk == nil {
				continue
			}
			inst, err := lib.NewKnowledgeBaseInstance(name, ver)
			if err != nil {
				lr.violate("instantiate-failed", fmt.Sprintf("%s: NewKnowledgeBaseInstance failed: %v", when, err))
				continue
			}
			inst.RemoveRuleEntry(op.Rule)
			im := mk.clone()
			if r, ok := im[op.Rule]; ok {
				r.Dead = true
			}
			lr.probeKB(op.Lib, op.KB, when+" on the instance the rule was removed from", inst, im, nil)
			// a second removal and use of the same instance must keep it removed
			lr.fetchExec(when+" second use of that instance", inst, im, nil)
		case "store":
			mk := lr.model[op.Lib][op.KB]
			if mk == nil {
				continue
			}
			var buf bytes.Buffer
			if err := lib.StoreKnowledgeBaseToWriter(&buf, name, ver); err != nil {
				lr.violate("store-failed", fmt.Sprintf("%s: %v", when, err))
				continue
			}
			lr.images = append(lr.images, struct {
				data []byte
				kb   int
				snap mKB
			}{buf.Bytes(), op.KB, mk.clone()})
		case "load":
			if op.Image >= len(lr.images) {
				continue
			}
			img := lr.images[op.Image]
			into := op.IntoLib
			if into >= len(lr.libs) {
				lr.libs = append(lr.libs, ast.NewKnowledgeLibrary())
				lr.model = append(lr.model, map[int]mKB{})
				into = len(lr.libs) - 1
			}
			_, exists := lr.model[into][img.kb]
			_, err := lr.libs[into].LoadKnowledgeBaseFromReader(&dsim.Reader{Image: img.data, ChunkSeed: op.ChunkSeed, MaxChunk: 9}, op.Overwrite)
			if exists && !op.Overwrite {
				res.Probes["load.overwrite-false-on-existing"]++
				if err == nil {
					lr.violate("overwrite-false-no-error", fmt.Sprintf("%s: load with overwrite=false onto an existing knowledge base returned nil", when))
				}
			} else {
				if err != nil {
					lr.violate("load-failed", fmt.Sprintf("%s: %v", when, err))
				} else {
					lr.model[into][img.kb] = img.snap.clone()
					res.Probes["load.replaced-or-added"]++
				}
			}
		}
		lr.probeAll(when, -1, -1, nil)
	}
}
