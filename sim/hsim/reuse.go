// Package hsim is "Sim H": histories. reuse.go: a sequence of Execute / ExecuteWithContext /
// FetchMatchingRules calls on ONE knowledge-base instance, each with its own facts, schedule and
// way of ending; every call is compared with the same call on an instance created at that moment.
package hsim

import (
	"fmt"
	"strings"

	"github.com/hyperjumptech/grule-rule-engine/pkg/simhook"

	"grulesim/sim/core"
	"grulesim/sim/esim"
)

// ReuseResult is the outcome of one instance-reuse history.
type ReuseResult struct {
	Violations []core.Violation
	Harness    string
	Ends       []string // way of ending of each call on the reused instance
	Kinds      []string
	Events     int
	Finger     uint64
	SimNs      int64
}

type callOutcome struct {
	end, err, final, viol string
	matched               []string
	finger                uint64
}

func (a callOutcome) diff(b callOutcome) string {
	var d []string
	if a.end != b.end {
		d = append(d, fmt.Sprintf("way of ending %q vs %q", a.end, b.end))
	}
	if a.err != b.err {
		d = append(d, fmt.Sprintf("return value %q vs %q", a.err, b.err))
	}
	if strings.Join(a.matched, ",") != strings.Join(b.matched, ",") {
		d = append(d, fmt.Sprintf("matched rules %v vs %v", a.matched, b.matched))
	}
	if a.final != b.final {
		d = append(d, "final facts differ")
	}
	if a.viol != b.viol {
		d = append(d, fmt.Sprintf("divergences from the reference model %q vs %q", a.viol, b.viol))
	}
	if len(d) == 0 && a.finger != b.finger {
		d = append(d, "event traces differ (same result)")
	}
	return strings.Join(d, "; ")
}

func outcomeOf(res *esim.Result) callOutcome {
	o := callOutcome{end: res.End, final: res.FinalReal, matched: res.Matched, finger: res.Finger}
	if res.Err != nil {
		o.err = res.Err.Error()
	}
	var vs []string
	for _, v := range res.Violations {
		vs = append(vs, v.Oracle)
	}
	o.viol = strings.Join(vs, ",")
	return o
}

func newRes() *esim.Result {
	return &esim.Result{Probes: map[string]int64{}, Faults: map[string]int{}, MethodCalls: map[string]int{}}
}

// RunReuse executes a C08 scenario.
func RunReuse(sc *core.Scenario) *ReuseResult {
	out := &ReuseResult{}
	defer func() { simhook.Order, simhook.Step, simhook.ID = nil, nil, nil }()
	esim.InstallIDs("n")
	simhook.Order = func(_ string, keys []string) []string { return keys }
	lib, err := esim.BuildLibraryOf(sc.Program, sc.Knobs.SplitAt)
	if err != nil {
		out.Harness = "generated program rejected by the builder: " + err.Error()
		return out
	}
	if !sc.Knobs.RemoveOnInstance {
		for _, n := range sc.Removed {
			lib.RemoveRuleEntry(n, esim.KBName, esim.KBVersion)
		}
	}
	reused, err := esim.Instance(lib, sc.Knobs.Source)
	if err != nil {
		out.Harness = "instance: " + err.Error()
		return out
	}
	if sc.Knobs.RemoveOnInstance {
		for _, n := range sc.Removed {
			reused.RemoveRuleEntry(n)
		}
	}
	for i, c := range sc.Calls {
		p := &core.Scenario{Property: "C08", Sim: "E", Program: sc.Program, Facts: c.Facts, Schedule: c.Schedule, Faults: c.Faults,
			CancelAt: c.CancelAt, Removed: sc.Removed, LatSeed: sc.LatSeed + uint64(i),
			Knobs: core.Knobs{MaxCycle: c.MaxCycle, RetErr: c.RetErr, Listeners: 1, Mode: c.Mode}}
		ra := newRes()
		esim.RunOn(p, reused, ra)
		fresh, err := esim.Instance(lib, sc.Knobs.Source)
		if err != nil {
			out.Harness = "fresh instance: " + err.Error()
			return out
		}
		if sc.Knobs.RemoveOnInstance {
			for _, n := range sc.Removed {
				fresh.RemoveRuleEntry(n)
			}
		}
		rb := newRes()
		esim.RunOn(p, fresh, rb)
		if ra.HarnessErr != "" || rb.HarnessErr != "" {
			out.Harness = ra.HarnessErr + rb.HarnessErr
			return out
		}
		if ra.End == "discarded-out-of-envelope" || rb.End == "discarded-out-of-envelope" {
			out.Ends = append(out.Ends, "discarded")
			out.Kinds = append(out.Kinds, c.Mode)
			break // the rest of the history is not judged
		}
		a, b := outcomeOf(ra), outcomeOf(rb)
		out.Ends = append(out.Ends, a.end)
		out.Kinds = append(out.Kinds, c.Mode)
		out.Events += ra.Events
		out.SimNs += ra.SimNs
		out.Finger = core.Mix(out.Finger, ra.Finger)
		if d := a.diff(b); d != "" && len(out.Violations) == 0 {
			prev := "none (first call)"
			if i > 0 {
				prev = fmt.Sprintf("%s ending %q", out.Kinds[i-1], out.Ends[i-1])
			}
			out.Violations = append(out.Violations, core.Violation{Oracle: "C08.differs-from-fresh", Property: "C08",
				Message: fmt.Sprintf("call %d (%s) on the reused instance differs from the same call on a new instance: %s; previous call: %s", i+1, c.Mode, d, prev)})
		}
	}
	return out
}
