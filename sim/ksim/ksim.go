// Package ksim is "Sim K": several tasks create instances from one library and execute them on
// their own facts. Each task runs on a real goroutine but exactly one is runnable at any time: every
// seam event and hook call is a yield point at which a seeded scheduler decides who runs next, so
// an interleaving is a list of task ids and replays exactly.
package ksim

import (
	"bytes"
	"encoding/json"
	"fmt"
	"sort"
	"strings"

	"github.com/hyperjumptech/grule-rule-engine/ast"
	"github.com/hyperjumptech/grule-rule-engine/engine"
	"github.com/hyperjumptech/grule-rule-engine/pkg/simhook"

	"grulesim/sim/core"
	"grulesim/sim/esim"
	"grulesim/sim/grl"
)

// KStep is one step of a task script.
type KStep struct {
	Op       string     `json:"op"` // new | exec | fetch | remove
	Slot     int        `json:"slot"`
	Facts    *grl.Facts `json:"facts,omitempty"`
	Schedule [][]int    `json:"schedule,omitempty"`
	MaxCycle uint64     `json:"max_cycle,omitempty"`
	Rule     string     `json:"rule,omitempty"`
}

// Extra is the Sim K payload of a scenario.
type Extra struct {
	Tasks     [][]KStep `json:"tasks"`
	Source    string    `json:"source"` // built | grb
	Removed   []string  `json:"removed,omitempty"`
	SchedSeed uint64    `json:"sched_seed"`
	Style     int       `json:"style"` // run-length style of the search-mode scheduler
	// Plan, when present, is the explicit interleaving: the task id chosen at each successive
	// yield point. After the list: the current task runs on, then the lowest live id.
	Plan []int `json:"plan,omitempty"`
	// SharedEngine: all tasks execute through ONE *GruleEngine value (no listeners, one MaxCycle).
	SharedEngine   bool   `json:"shared_engine,omitempty"`
	SharedMaxCycle uint64 `json:"shared_max_cycle,omitempty"`
}

func ExtraOf(sc *core.Scenario) (*Extra, error) {
	var ex Extra
	if err := json.Unmarshal(sc.Extra, &ex); err != nil {
		return nil, err
	}
	return &ex, nil
}

func SetExtra(sc *core.Scenario, ex *Extra) {
	b, _ := json.Marshal(ex)
	sc.Extra = b
}

// ---------------------------------------------------------------------------------------------

type ktask struct {
	id      int
	script  []KStep
	ids     *esim.IDSource
	wake    chan struct{}
	done    bool
	h       *esim.Handle // non-nil while the task is inside an exec/fetch step
	inst    [2]*ast.KnowledgeBase
	removed [2][]string
	out     []string // outcome per step
	viol    []core.Violation
}

type sched struct {
	tasks    []*ktask
	cur      *ktask
	plan     []int
	pos      int
	rnd      *core.Rand
	style    int
	recorded []int
	yields   int
	switches int
	trace    uint64
	yieldCh  chan *ktask
	max      int
	sites    map[string]int
	leak     string
}

func (s *sched) yield(t *ktask, site string) {
	if s == nil || t == nil {
		return
	}
	if s.cur != nil && t != s.cur {
		// An object that belongs to task t was invoked while another task is running: state
		// leaked from one instance into another. The running goroutine is s.cur's, so that is
		// the task that yields (otherwise the cooperative protocol would deadlock).
		if s.leak == "" {
			s.leak = fmt.Sprintf("a seam object handed to task %d was invoked at %q while task %d was running", t.id, site, s.cur.id)
		}
		t = s.cur
	}
	s.yields++
	if i := strings.IndexByte(site, ':'); i > 0 {
		s.sites[site[:i]]++
	} else {
		s.sites[site]++
	}
	s.trace = core.Mix(s.trace, uint64(t.id), core.HashStr(site))
	if s.yields > s.max {
		return
	}
	s.yieldCh <- t
	<-t.wake
}

func (s *sched) live() []*ktask {
	var l []*ktask
	for _, t := range s.tasks {
		if !t.done {
			l = append(l, t)
		}
	}
	return l
}

func (s *sched) pick() *ktask {
	l := s.live()
	if len(l) == 0 {
		return nil
	}
	var next *ktask
	switch {
	case s.pos < len(s.plan):
		id := s.plan[s.pos]
		for _, t := range l {
			if t.id == id {
				next = t
			}
		}
	case s.rnd != nil && len(s.plan) == 0:
		stay := 0
		switch s.style {
		case 0:
			stay = 0 // switch at every yield
		case 1:
			stay = 70
		case 2:
			stay = 95
		default:
			stay = 99
		}
		if s.cur != nil && !s.cur.done && s.rnd.Chance(stay, 100) {
			next = s.cur
		} else {
			next = l[s.rnd.Intn(len(l))]
		}
	}
	if next == nil {
		if s.cur != nil && !s.cur.done {
			next = s.cur
		} else {
			next = l[0]
		}
	}
	s.pos++
	s.recorded = append(s.recorded, next.id)
	return next
}

// run drives all tasks to completion.
func (s *sched) run(body func(t *ktask)) {
	for _, t := range s.tasks {
		t := t
		go func() {
			<-t.wake
			func() {
				defer func() {
					if p := recover(); p != nil {
						t.out = append(t.out, fmt.Sprintf("panic: %v", p))
						t.viol = append(t.viol, core.Violation{Oracle: "C09.panic", Property: "C09", Message: fmt.Sprintf("task %d panicked: %v", t.id, p)})
					}
				}()
				body(t)
			}()
			t.done = true
			s.yieldCh <- t
		}()
	}
	for {
		next := s.pick()
		if next == nil {
			break
		}
		if s.cur != nil && s.cur != next {
			s.switches++
		}
		s.cur = next
		next.wake <- struct{}{}
		<-s.yieldCh
	}
	s.cur = nil
}

// Outcome of one phase.
type Outcome struct {
	PerTask  [][]string
	Viol     []core.Violation
	Trace    uint64
	Yields   int
	Switches int
	Plan     []int
	Sites    map[string]int
	Harness  string
	InClone  int // context switches that happened while some task was inside NewKnowledgeBaseInstance
}

func buildLibrary(sc *core.Scenario, ex *Extra) (*ast.KnowledgeLibrary, error) {
	lib, err := esim.BuildLibraryOf(sc.Program, sc.Knobs.SplitAt)
	if err != nil {
		return nil, err
	}
	for _, n := range ex.Removed {
		lib.RemoveRuleEntry(n, esim.KBName, esim.KBVersion)
	}
	if ex.Source == "grb" {
		var buf bytes.Buffer
		if err := lib.StoreKnowledgeBaseToWriter(&buf, esim.KBName, esim.KBVersion); err != nil {
			return nil, err
		}
		lib2 := ast.NewKnowledgeLibrary()
		if _, err := lib2.LoadKnowledgeBaseFromReader(bytes.NewReader(buf.Bytes()), true); err != nil {
			return nil, err
		}
		return lib2, nil
	}
	return lib, nil
}

// phase builds a fresh library and runs the scripts, either interleaved (s != nil decides) or
// one task after the other.
func phase(sc *core.Scenario, ex *Extra, mode string, only int) *Outcome {
	interleave := mode == "conc"
	out := &Outcome{}
	base := esim.InstallIDs("b")
	_ = base
	simhook.Order = func(_ string, keys []string) []string { return keys }
	simhook.Step = nil
	lib, err := buildLibrary(sc, ex)
	if err != nil {
		out.Harness = "library: " + err.Error()
		return out
	}
	blueprint := lib.Library[ast.GetKnowledgeBaseKey(esim.KBName, esim.KBVersion)]
	bpHash := StructHash(blueprint)
	bpNodes := MutableNodes(blueprint)

	s := &sched{yieldCh: make(chan *ktask), max: 6000, sites: map[string]int{}}
	if interleave {
		s.plan = ex.Plan
		s.rnd = core.NewRand(core.Mix(ex.SchedSeed, 0x5c))
		s.style = ex.Style
	} else {
		s.max = 0 // never switch: each task runs to completion, lowest id first
	}
	for i, sc := range ex.Tasks {
		if only >= 0 && i != only {
			continue
		}
		s.tasks = append(s.tasks, &ktask{id: i, script: sc, ids: &esim.IDSource{Prefix: fmt.Sprintf("t%d-", i)}, wake: make(chan struct{})})
	}
	if mode == "seqrev" {
		for i, j := 0, len(s.tasks)-1; i < j; i, j = i+1, j-1 {
			s.tasks[i], s.tasks[j] = s.tasks[j], s.tasks[i]
		}
	}
	var sharedEngine *engine.GruleEngine
	if ex.SharedEngine {
		sharedEngine = &engine.GruleEngine{MaxCycle: ex.SharedMaxCycle}
	}
	var shared []core.Violation
	report := func(oracle, msg string) {
		for _, v := range shared {
			if v.Oracle == oracle {
				return
			}
		}
		shared = append(shared, core.Violation{Oracle: oracle, Property: "C09", Message: msg})
	}
	cloning := 0
	simhook.ID = func() string {
		if t := s.cur; t != nil {
			id := t.ids.Next()
			s.yield(t, "id")
			return id
		}
		return base.Next()
	}
	simhook.Order = func(site string, keys []string) []string {
		if t := s.cur; t != nil && t.h != nil {
			return t.h.Order(site, keys)
		}
		return keys
	}
	simhook.Step = func(site, key string) {
		t := s.cur
		if t == nil {
			return
		}
		if t.h != nil && (site == "engine.exec" || site == "engine.fetch") {
			t.h.Visit(site, key)
			return
		}
		s.yield(t, site)
	}
	checkIsolation := func(who string) {
		sets := []map[uintptr]string{bpNodes}
		names := []string{"blueprint"}
		for _, t := range s.tasks {
			for slot, kb := range t.inst {
				if kb != nil {
					sets = append(sets, MutableNodes(kb))
					names = append(names, fmt.Sprintf("task%d.inst%d", t.id, slot))
				}
			}
		}
		for i := 0; i < len(sets); i++ {
			for j := i + 1; j < len(sets); j++ {
				for addr, typ := range sets[j] {
					if _, ok := sets[i][addr]; ok {
						report("C09.shared-mutable-node", fmt.Sprintf("%s and %s share a mutable %s node (seen %s)", names[i], names[j], typ, who))
					}
				}
			}
		}
		if h := StructHash(blueprint); h != bpHash {
			report("C09.blueprint-changed", fmt.Sprintf("the library's blueprint changed (seen %s)", who))
		}
	}

	body := func(t *ktask) {
		for si, st := range t.script {
			switch st.Op {
			case "new":
				if mode == "blueprint" {
					// reference: the library's own knowledge base, used directly (one library per task)
					cur := s.cur
					s.cur = nil // library construction is not part of the task: base ids, no yields
					l2, err := buildLibrary(sc, ex)
					s.cur = cur
					if err != nil {
						t.out = append(t.out, "harness: "+err.Error())
						return
					}
					t.inst[st.Slot] = l2.Library[ast.GetKnowledgeBaseKey(esim.KBName, esim.KBVersion)]
					t.removed[st.Slot] = nil
					t.out = append(t.out, "new: ok")
					continue
				}
				cloning++
				sw := s.switches
				kb, err := lib.NewKnowledgeBaseInstance(esim.KBName, esim.KBVersion)
				cloning--
				out.InClone += s.switches - sw
				if err != nil {
					t.out = append(t.out, "new: error "+err.Error())
					report("C09.instance-failed", fmt.Sprintf("task %d: NewKnowledgeBaseInstance failed: %v", t.id, err))
					return
				}
				t.inst[st.Slot] = kb
				t.removed[st.Slot] = nil
				if d := copyDiff(blueprint, kb); d != "" {
					report("C09.unfaithful-copy", fmt.Sprintf("task %d: instance differs from the library's knowledge base: %s", t.id, d))
				}
				checkIsolation(fmt.Sprintf("after task %d step %d new", t.id, si))
				t.out = append(t.out, "new: ok")
			case "remove":
				if kb := t.inst[st.Slot]; kb != nil {
					kb.RemoveRuleEntry(st.Rule)
					t.removed[st.Slot] = append(t.removed[st.Slot], st.Rule)
				}
				t.out = append(t.out, "remove: "+st.Rule)
				s.yield(t, "remove")
			case "exec", "fetch":
				kb := t.inst[st.Slot]
				if kb == nil {
					t.out = append(t.out, st.Op+": no instance")
					continue
				}
				p := &core.Scenario{Property: "C09", Sim: "E", Program: sc.Program, Facts: st.Facts, Schedule: st.Schedule,
					Removed: append(append([]string{}, ex.Removed...), t.removed[st.Slot]...),
					Knobs:   core.Knobs{MaxCycle: st.MaxCycle, Listeners: 1, Mode: map[string]string{"exec": "execute", "fetch": "fetch"}[st.Op]}, LatSeed: uint64(t.id + 1)}
				if sharedEngine != nil {
					p.Knobs.Listeners, p.Knobs.MaxCycle = 0, ex.SharedMaxCycle
				}
				res := &esim.Result{Probes: map[string]int64{}, Faults: map[string]int{}, MethodCalls: map[string]int{}}
				h := esim.Prepare(p, kb, res)
				if h == nil {
					t.out = append(t.out, "harness: "+res.HarnessErr)
					continue
				}
				h.SetYield(func(site string) { s.yield(t, site) })
				if sharedEngine != nil {
					h.SetEngine(sharedEngine)
				}
				t.h = h
				h.Execute()
				t.h = nil
				errS := ""
				if res.Err != nil {
					errS = res.Err.Error()
				}
				var vs []string
				for _, v := range res.Violations {
					vs = append(vs, v.Oracle)
					t.viol = append(t.viol, core.Violation{Oracle: "C09.diverges-from-model", Property: "C09",
						Message: fmt.Sprintf("task %d step %d (%s): %s: %s", t.id, si, st.Op, v.Oracle, v.Message)})
				}
				t.out = append(t.out, fmt.Sprintf("%s: end=%s err=%q trace=%016x matched=%v model-violations=%v\nfacts:\n%s", st.Op, res.End, errS, res.Finger, res.Matched, vs, res.FinalReal))
			}
		}
	}
	s.run(body)
	if s.leak != "" {
		report("C09.cross-instance-call", s.leak)
	}
	if mode != "blueprint" {
		checkIsolation("at the end")
	}
	simhook.Order, simhook.Step, simhook.ID = nil, nil, nil
	out.PerTask = make([][]string, len(ex.Tasks))
	for _, t := range s.tasks {
		out.PerTask[t.id] = t.out
		out.Viol = append(out.Viol, t.viol...)
	}
	out.Viol = append(out.Viol, shared...)
	out.Trace, out.Yields, out.Switches, out.Plan, out.Sites = s.trace, s.yields, s.switches, s.recorded, s.sites
	return out
}

func copyDiff(bp, inst *ast.KnowledgeBase) string {
	if bp.Name != inst.Name || bp.Version != inst.Version {
		return "name/version differ"
	}
	if len(bp.RuleEntries) != len(inst.RuleEntries) {
		return fmt.Sprintf("%d rule entries vs %d", len(bp.RuleEntries), len(inst.RuleEntries))
	}
	var ks []string
	for k := range bp.RuleEntries {
		ks = append(ks, k)
	}
	sort.Strings(ks)
	for _, k := range ks {
		a, b := bp.RuleEntries[k], inst.RuleEntries[k]
		if b == nil {
			return "rule " + k + " missing"
		}
		if a.RuleName != b.RuleName || a.RuleDescription != b.RuleDescription || a.Salience != b.Salience || a.Deleted != b.Deleted || a.GrlText != b.GrlText {
			return "rule " + k + " metadata differs"
		}
		if b.Retracted {
			return "rule " + k + " is retracted in a new instance"
		}
	}
	if bp.GetSnapshot() != inst.GetSnapshot() {
		return "snapshots differ"
	}
	return ""
}

// Result of a complete Sim K scenario (sequential reference phase + interleaved phase).
type Result struct {
	Violations []core.Violation
	Harness    string
	Seq, Conc  *Outcome
}

// Run executes a Sim K scenario.
func Run(sc *core.Scenario) *Result {
	res := &Result{}
	ex, err := ExtraOf(sc)
	if err != nil {
		res.Harness = err.Error()
		return res
	}
	add := func(v core.Violation) {
		for _, x := range res.Violations {
			if x.Oracle == v.Oracle {
				return
			}
		}
		res.Violations = append(res.Violations, v)
	}
	join := func(o *Outcome, i int) string { return strings.Join(o.PerTask[i], "\n--\n") }
	structural := func(o *Outcome) {
		for _, v := range o.Viol {
			if v.Oracle != "C09.diverges-from-model" { // the model is not C09's oracle: the library's own knowledge base is
				add(v)
			}
		}
	}
	// reference: every task's script executed directly on the knowledge base of its own library
	ref := make([]string, len(ex.Tasks))
	for i := range ex.Tasks {
		o := phase(sc, ex, "blueprint", i)
		if o.Harness != "" {
			res.Harness = o.Harness
			return res
		}
		ref[i] = join(o, i)
	}
	seq := phase(sc, ex, "seq", -1)
	rev := phase(sc, ex, "seqrev", -1)
	conc := phase(sc, ex, "conc", -1)
	for _, o := range []*Outcome{seq, rev, conc} {
		if o.Harness != "" {
			res.Harness = o.Harness
			return res
		}
		structural(o)
	}
	res.Seq, res.Conc = seq, conc
	for i := range ex.Tasks {
		if a := join(seq, i); a != ref[i] {
			add(core.Violation{Oracle: "C09.unfaithful-behaviour", Property: "C09",
				Message: fmt.Sprintf("task %d: an instance does not behave like the library's knowledge base it was created from:\n%s", i, firstDiff(ref[i], a, "library's kb", "instance    "))})
		}
		if a, b := join(seq, i), join(rev, i); a != b {
			add(core.Violation{Oracle: "C09.order-dependent", Property: "C09",
				Message: fmt.Sprintf("task %d obtained a different result depending on which other tasks ran before it (sequentially):\n%s", i, firstDiff(a, b, "order 0..n", "order n..0"))})
		}
		if a, b := join(seq, i), join(conc, i); a != b {
			add(core.Violation{Oracle: "C09.differs-from-sequential", Property: "C09",
				Message: fmt.Sprintf("task %d obtained a different result when interleaved with the other tasks than when run in sequence:\n%s", i, firstDiff(a, b, "sequential ", "interleaved"))})
		}
	}
	return res
}

func firstDiff(a, b, na, nb string) string {
	la, lb := strings.Split(a, "\n"), strings.Split(b, "\n")
	for i := 0; i < len(la) || i < len(lb); i++ {
		var x, y string
		if i < len(la) {
			x = la[i]
		}
		if i < len(lb) {
			y = lb[i]
		}
		if x != y {
			return fmt.Sprintf("  %s: %s\n  %s: %s", na, x, nb, y)
		}
	}
	return ""
}
