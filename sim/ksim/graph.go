package ksim

import (
	"hash/fnv"
	"reflect"
	"sort"
	"strings"

	"github.com/hyperjumptech/grule-rule-engine/ast"
)

var astPkg = reflect.TypeOf(ast.KnowledgeBase{}).PkgPath()

// mutable node types: objects that hold per-run state (remembered values, flags) or index it.
var mutableTypes = map[string]bool{
	"Expression": true, "ExpressionAtom": true, "Variable": true, "ArrayMapSelector": true,
	"RuleEntry": true, "WorkingMemory": true, "KnowledgeBase": true,
}

func isAstStruct(t reflect.Type) bool {
	return t.Kind() == reflect.Struct && t.PkgPath() == astPkg
}

// walk visits every ast struct reachable from v through pointers, slices, arrays, maps and struct
// fields (exported or not) of ast types. Fields of foreign types (data context, value nodes,
// reflect.Value, mutexes) are not followed.
func walk(v reflect.Value, seen map[uintptr]bool, visit func(ptr uintptr, s reflect.Value), onMap func(ptr uintptr, m reflect.Value)) {
	if !v.IsValid() {
		return
	}
	switch v.Kind() {
	case reflect.Ptr:
		if v.IsNil() || !isAstStruct(v.Type().Elem()) {
			return
		}
		p := v.Pointer()
		if seen[p] {
			return
		}
		seen[p] = true
		visit(p, v.Elem())
		walk(v.Elem(), seen, visit, onMap)
	case reflect.Struct:
		if !isAstStruct(v.Type()) {
			return
		}
		for i := 0; i < v.NumField(); i++ {
			walk(v.Field(i), seen, visit, onMap)
		}
	case reflect.Slice, reflect.Array:
		if v.Kind() == reflect.Slice && v.IsNil() {
			return
		}
		et := v.Type().Elem()
		if et.Kind() != reflect.Ptr && et.Kind() != reflect.Struct {
			return
		}
		for i := 0; i < v.Len(); i++ {
			walk(v.Index(i), seen, visit, onMap)
		}
	case reflect.Map:
		if v.IsNil() {
			return
		}
		et := v.Type().Elem()
		kt := v.Type().Key()
		relevant := func(t reflect.Type) bool {
			if t.Kind() == reflect.Ptr {
				return isAstStruct(t.Elem())
			}
			if t.Kind() == reflect.Slice {
				return t.Elem().Kind() == reflect.Ptr && isAstStruct(t.Elem().Elem())
			}
			return false
		}
		if !relevant(et) && !relevant(kt) {
			return
		}
		if onMap != nil {
			onMap(v.Pointer(), v)
		}
		it := v.MapRange()
		for it.Next() {
			walk(it.Key(), seen, visit, onMap)
			walk(it.Value(), seen, visit, onMap)
		}
	}
}

// MutableNodes returns the addresses of all mutable nodes (and node-holding maps) reachable from
// a knowledge base, with their type names.
func MutableNodes(kb *ast.KnowledgeBase) map[uintptr]string {
	out := map[uintptr]string{}
	walk(reflect.ValueOf(kb), map[uintptr]bool{}, func(p uintptr, s reflect.Value) {
		if mutableTypes[s.Type().Name()] {
			out[p] = s.Type().Name()
		}
	}, func(p uintptr, m reflect.Value) {
		out[p] = "map " + m.Type().String()
	})
	return out
}

// StructHash is a structural hash of everything reachable from a knowledge base: type names and
// all scalar fields (names, texts, flags such as Evaluated/Retracted/Deleted, operators, salience)
// plus the sizes of slices and maps. It is independent of addresses and of map iteration order.
func StructHash(kb *ast.KnowledgeBase) uint64 {
	var parts []string
	walk(reflect.ValueOf(kb), map[uintptr]bool{}, func(p uintptr, s reflect.Value) {
		var b strings.Builder
		b.WriteString(s.Type().Name())
		for i := 0; i < s.NumField(); i++ {
			f := s.Field(i)
			switch f.Kind() {
			case reflect.Bool:
				if f.Bool() {
					b.WriteString("|T")
				} else {
					b.WriteString("|F")
				}
			case reflect.Int, reflect.Int8, reflect.Int16, reflect.Int32, reflect.Int64:
				b.WriteString("|" + itoa(f.Int()))
			case reflect.Uint, reflect.Uint8, reflect.Uint16, reflect.Uint32, reflect.Uint64:
				b.WriteString("|" + itoa(int64(f.Uint())))
			case reflect.String:
				b.WriteString("|" + f.String())
			case reflect.Slice, reflect.Map:
				b.WriteString("|#" + itoa(int64(f.Len())))
			case reflect.Ptr:
				if f.IsNil() {
					b.WriteString("|nil")
				} else {
					b.WriteString("|ptr")
				}
			}
		}
		parts = append(parts, b.String())
	}, nil)
	sort.Strings(parts)
	h := fnv.New64a()
	for _, p := range parts {
		h.Write([]byte(p))
		h.Write([]byte{0})
	}
	return h.Sum64()
}

func itoa(i int64) string {
	neg := i < 0
	if neg {
		i = -i
	}
	if i == 0 {
		return "0"
	}
	var d []byte
	for i > 0 {
		d = append([]byte{byte('0' + i%10)}, d...)
		i /= 10
	}
	if neg {
		return "-" + string(d)
	}
	return string(d)
}
