package checks

import (
	"strings"

	"grulesim/sim/core"
	"grulesim/sim/esim"
	"grulesim/sim/gen"
)

var realVsStubE = map[string]string{
	"real":      "ANTLR lexer/parser and listener, builder, ast (working memory, clone, serializer, built-ins), engine loop, model data-access layers (Go and JSON), pkg reflect arithmetic, context polling",
	"simulated": "rule iteration order per cycle (simhook), node identifiers, clock/latency, cancellation instant, fault plan, fact objects and their methods, listeners",
	"wrapped":   "IDataContext and ValueNode are real implementations behind event-recording wrappers",
	"not_run":   "URL/Git/file resources, external loggers, dectab",
}

var assumptionsE = []string{
	"the reference model is a hand-written, memory-free interpreter of the documented GRL core; it is exact only inside generator restrictions R1-R5 (DESIGN.md 4.3)",
	"fact methods used in conditions are referentially transparent; external changes are announced with Changed/Forget",
	"programs are well-typed by construction; float constants are multiples of 0.25; identifiers are not substrings of one another",
	"sampling, not proof: a clean batch is evidence only",
}

func profileFor(prop string) gen.Profile {
	p := gen.DefaultProfile()
	switch prop {
	case "C01", "C02":
		p.PNatural = 2
		p.HotBias = 80
		p.ReusePct = 40
	case "C03":
		p.MaxRules = 6
		p.MaxDepth = 2
		p.PSelfRetract = 60
		p.PNatural = 1
		p.MaxCycles = []uint64{2, 3, 5, 8, 12}
	case "C04":
		p.MaxActions = 5
		p.HotBias = 50
		p.PRetract = 10
		p.PNatural = 1
	case "C06":
		p.Listeners = []int{1, 2, 3, 1, 2, 0}
		p.MaxCycles = []uint64{0, 1, 2, 3, 5, 12}
	case "C10":
		p.PRetract = 45
		p.PComplete = 20
		p.MaxRules = 5
	case "C11":
		p.Mode = "fetch"
		p.PRemoved = 30
		p.PNatural = 12
		p.RetErrPct = 30
		p.MaxRules = 6
	case "C13":
		p.PCounted = 60
		p.WriteOtherFact = 85
		p.PNatural = 1
		p.MaxCycles = []uint64{3, 5, 8, 12}
	case "C14":
		p.PNatural = 15
		p.RetErrPct = 40
		p.PNilPtr = 12
		p.MaxRules = 4
		p.MaxCycles = []uint64{1, 2, 3, 5}
	case "C15":
		p.MaxRules = 4
		p.PNatural = 1
		p.MaxCycles = []uint64{1, 2, 3, 5}
	}
	return p
}

func nontrivialFor(prop string) func(r *esim.Result) bool {
	switch prop {
	case "C01":
		return func(r *esim.Result) bool {
			return r.Firings >= 1 && (r.Probes["transition.true-to-false"] > 0 || r.Probes["transition.false-to-true"] > 0)
		}
	case "C02":
		return func(r *esim.Result) bool {
			return r.Firings >= 1 && (r.Probes["transition.false-to-true"] > 0 || r.End == "quiescent")
		}
	case "C03":
		return func(r *esim.Result) bool { return r.Probes["cycle.ge2-candidates"] > 0 }
	case "C04":
		return func(r *esim.Result) bool { return r.Firings >= 1 }
	case "C06":
		return func(r *esim.Result) bool { return r.Cycles >= 1 }
	case "C10":
		return func(r *esim.Result) bool {
			for k := range r.Probes {
				if strings.HasPrefix(k, "retract.") || strings.HasPrefix(k, "complete.") {
					return true
				}
			}
			return false
		}
	case "C11":
		return func(r *esim.Result) bool { return len(r.Matched) >= 1 || r.End == "fetch-evalerr" }
	case "C13":
		return func(r *esim.Result) bool { return r.Probes["counted-call"] >= 1 && r.Cycles >= 2 }
	case "C14":
		return func(r *esim.Result) bool {
			return len(r.Faults) > 0 || r.Probes["eval.cond-error"] > 0 || r.Probes["action.natural-error"] > 0
		}
	case "C15":
		return func(r *esim.Result) bool { return strings.HasPrefix(r.End, "cancel") }
	}
	return func(r *esim.Result) bool { return true }
}

const maxFoundPerWorker = 6

// execE runs one Sim E scenario for a property and records everything.
func execE(prop string, sc *core.Scenario, idx int, st *core.Stats) *esim.Result {
	res := esim.Run(sc)
	st.Evaluations++
	if res.HarnessErr != "" {
		if len(st.Harness) < 5 {
			st.Harness = append(st.Harness, res.HarnessErr)
		}
		return res
	}
	for k, v := range res.Probes {
		st.Probes[k] += v
	}
	for k, v := range res.Faults {
		st.Faults[k] += int64(v)
	}
	st.Ends[res.End]++
	st.SimNs += res.SimNs
	st.Events += int64(res.Events)
	st.AddDistinct(core.Mix(res.SchedHash, core.HashStr(sc.GRL)))
	if nontrivialFor(prop)(res) {
		st.AddNonTrivial(res.Finger)
		st.AddSample(map[string]interface{}{"grl": sc.GRL, "facts": sc.Facts, "knobs": sc.Knobs, "schedule": sc.Schedule,
			"faults": sc.Faults, "cancel_at": sc.CancelAt, "cancel_at_callback": sc.CancelAtCallback, "deadline_ns": sc.DeadlineNs, "removed": sc.Removed, "end": res.End, "events": res.Events, "firings": res.Firings}, 3)
	}
	for _, v := range res.Violations {
		if v.Property != prop {
			st.Probes["other-property-violation."+v.Oracle]++
			continue
		}
		st.Probes["violation."+v.Oracle]++
		if len(st.Found) >= maxFoundPerWorker {
			continue
		}
		dup := false
		for _, f := range st.Found {
			if f.V.Oracle == v.Oracle {
				dup = true
			}
		}
		if dup {
			continue
		}
		oracle := v.Oracle
		min, tried := esim.Shrink(sc, func(c *core.Scenario) bool {
			r := esim.Run(c)
			if r.HarnessErr != "" {
				return false
			}
			for _, vv := range r.Violations {
				if vv.Oracle == oracle {
					return true
				}
			}
			return false
		}, 500)
		st.Shrunk += int64(tried)
		// final run of the minimised scenario: take its message and log tail
		fr := esim.Run(min)
		fv := v
		for _, vv := range fr.Violations {
			if vv.Oracle == oracle {
				fv = vv
			}
		}
		min.Violation = &core.ViolationInfo{Oracle: fv.Oracle, Property: fv.Property, Message: fv.Message, LogTail: fr.Log}
		st.Found = append(st.Found, core.Found{V: fv, Scenario: min, Original: idx})
	}
	return res
}

func replayE(c *Check, sc *core.Scenario) []core.Violation {
	res := esim.Run(sc)
	if res.HarnessErr != "" {
		return []core.Violation{{Oracle: "HARNESS", Property: "HARNESS", Message: res.HarnessErr}}
	}
	var out []core.Violation
	for _, v := range res.Violations {
		if v.Property == c.ID {
			out = append(out, v)
		}
	}
	return out
}

// scheduleVariants returns the scenario under several schedules (identity, reverse, random ...).
func scheduleVariants(base *core.Scenario, seed uint64, n int) []*core.Scenario {
	out := []*core.Scenario{base}
	r := core.NewRand(core.Mix(seed, 0x5c4ed))
	k := len(base.Program.Rules)
	loops := int(base.Knobs.MaxCycle) + 2
	for v := 1; v < n; v++ {
		c := base.Clone()
		c.Schedule = nil
		for l := 0; l < loops; l++ {
			switch v {
			case 1: // reverse everywhere
				p := make([]int, k)
				for j := range p {
					p[j] = k - 1 - j
				}
				c.Schedule = append(c.Schedule, p)
			default:
				c.Schedule = append(c.Schedule, r.Perm(k))
			}
		}
		out = append(out, c)
	}
	return out
}

func runSchedules(c *Check, seed uint64, i int, tier string, st *core.Stats) {
	rs := RunSeed(seed, c.ID, i)
	base := gen.ScenarioFor(c.ID, rs, profileFor(c.ID))
	if base.Template != "" {
		st.Probes["template."+base.Template]++
	}
	if c.ID == "C10" {
		// a quarter of the runs happen on an instance that has executed before (other or the same facts): what
		// that call retracted or completed is over with that call
		r := core.NewRand(core.Mix(rs, 0x10))
		if r.Intn(4) == 0 {
			g := &gen.G{R: r, Prof: profileFor("C10")}
			base.Calls = []core.Call{{Mode: "execute", Facts: g.Facts(), MaxCycle: uint64(r.Range(1, 5)), RetErr: r.Chance(1, 3)}}
			if r.Chance(1, 2) {
				base.Calls[0].Facts = base.Facts
			}
		}
	}
	if c.ID == "C01" || c.ID == "C02" || c.ID == "C10" || c.ID == "C13" {
		// one run in eight: the data context has been used with another instance before
		base.Knobs.OtherInstanceFirst = core.Mix(rs, 0x01f)%8 == 0
	}
	if c.ID == "C11" {
		// a third of the fetches happen on an instance that has executed before (other facts)
		r := core.NewRand(core.Mix(rs, 0x11))
		switch r.Intn(6) {
		case 0, 1:
			g := &gen.G{R: r, Prof: profileFor("C10")}
			base.Calls = []core.Call{{Mode: "execute", Facts: g.Facts(), MaxCycle: uint64(r.Range(1, 5))}}
			if r.Chance(1, 2) {
				base.Calls[0].Facts = base.Facts
			}
		case 2:
			// the same data context is fetched twice, the facts changed in place in between
			g := &gen.G{R: r, Prof: profileFor("C11")}
			other := g.Facts()
			other.Omit = nil
			if len(base.Facts.Omit) == 0 {
				base.Knobs.RefetchFrom = other
			}
		}
	}
	n := 3
	if tier == "thorough" {
		n = 6
	}
	for _, sc := range scheduleVariants(base, rs, n) {
		execE(c.ID, sc, i, st)
	}
}

// runFaults: fault enumeration for C14.
func runFaults(c *Check, seed uint64, i int, tier string, st *core.Stats) {
	rs := RunSeed(seed, c.ID, i)
	base := gen.ScenarioFor(c.ID, rs, profileFor(c.ID))
	if base.Template != "" {
		st.Probes["template."+base.Template]++
	}
	clean := execE(c.ID, base, i, st)
	if clean.HarnessErr != "" {
		return
	}
	el := clean.Eligible
	r := core.NewRand(core.Mix(rs, 0xfa17))
	limit := 48
	if tier == "thorough" {
		limit = 1 << 30
	}
	if len(el) > limit {
		st.Probes["fault-positions.sampled"]++
		p := r.Perm(len(el))[:limit]
		sub := make([]esim.EvInfo, 0, limit)
		for _, x := range p {
			sub = append(sub, el[x])
		}
		el = sub
	} else {
		st.Probes["fault-positions.all"]++
	}
	for _, e := range el {
		kinds := []string{"err", "panic"}
		if e.Kind == "get" {
			kinds = []string{"nilfact", "panic"}
		}
		for _, k := range kinds {
			sc := base.Clone()
			sc.Faults = []core.Fault{{At: e.Seq, Kind: k}}
			execE(c.ID, sc, i, st)
		}
	}
	// an action fails while the context has already ended (cancelled at or before the failing event of the
	// same firing): the failure must still be reported and name the rule
	var acts []esim.EvInfo
	for _, e := range clean.Eligible {
		if e.Phase == "action" {
			acts = append(acts, e)
		}
	}
	for s := 0; s < 6 && len(acts) > 0; s++ {
		e := acts[r.Intn(len(acts))]
		sc := base.Clone()
		sc.Faults = []core.Fault{{At: e.Seq, Kind: r.PickStr("err", "panic")}}
		sc.CancelAt = e.Seq
		if r.Chance(1, 2) {
			// cancel a little earlier, but inside the same firing when possible
			for _, a := range acts {
				if a.Seq < e.Seq && e.Seq-a.Seq <= 4 {
					sc.CancelAt = a.Seq
					break
				}
			}
		}
		execE(c.ID, sc, i, st)
		st.Probes["fault-with-cancellation"]++
	}
	// sampled multi-fault sequences
	if len(clean.Eligible) >= 2 {
		for s := 0; s < 3; s++ {
			sc := base.Clone()
			nf := r.Range(2, 3)
			for f := 0; f < nf; f++ {
				e := clean.Eligible[r.Intn(len(clean.Eligible))]
				k := r.PickStr("err", "panic")
				sc.Faults = append(sc.Faults, core.Fault{At: e.Seq, Kind: k})
			}
			execE(c.ID, sc, i, st)
		}
	}
}

// runCancels: cancellation-point enumeration for C15.
func runCancels(c *Check, seed uint64, i int, tier string, st *core.Stats) {
	rs := RunSeed(seed, c.ID, i)
	base := gen.ScenarioFor(c.ID, rs, profileFor(c.ID))
	if base.Template != "" {
		st.Probes["template."+base.Template]++
	}
	base.Faults = nil
	clean := execE(c.ID, base, i, st)
	if clean.HarnessErr != "" {
		return
	}
	r := core.NewRand(core.Mix(rs, 0xca9ce1))
	n := clean.Events
	points := make([]int, 0, n)
	for k := 1; k <= n; k++ {
		points = append(points, k)
	}
	limit := 64
	if tier == "thorough" {
		limit = 1 << 30
	}
	if len(points) > limit {
		st.Probes["cancel-positions.sampled"]++
		p := r.Perm(len(points))[:limit]
		sub := make([]int, 0, limit)
		for _, x := range p {
			sub = append(sub, points[x])
		}
		points = sub
	} else {
		st.Probes["cancel-positions.all"]++
	}
	pre := base.Clone()
	pre.CancelAt = -1
	execE(c.ID, pre, i, st)
	for _, k := range points {
		sc := base.Clone()
		sc.CancelAt = k
		execE(c.ID, sc, i, st)
	}
	// cancellation from inside a listener callback (Begin / Evaluate / Execute notification)
	if base.Knobs.Listeners > 0 && clean.Callbacks > 0 {
		cbs := make([]int, 0, clean.Callbacks)
		for k := 1; k <= clean.Callbacks; k++ {
			cbs = append(cbs, k)
		}
		if len(cbs) > limit/2 {
			p := r.Perm(len(cbs))[:limit/2]
			sub := make([]int, 0, limit/2)
			for _, x := range p {
				sub = append(sub, cbs[x])
			}
			cbs = sub
		}
		for _, k := range cbs {
			sc := base.Clone()
			sc.CancelAtCallback = k
			execE(c.ID, sc, i, st)
		}
		st.Probes["cancel-in-callback-positions"] += int64(len(cbs))
	}
	if len(clean.TimeAt) > 0 {
		total := clean.TimeAt[len(clean.TimeAt)-1]
		for d := 0; d < 3; d++ {
			sc := base.Clone()
			sc.DeadlineNs = int64(r.Uint64()%uint64(total)) + 1
			execE(c.ID, sc, i, st)
		}
	}
}

func init() {
	type def struct {
		id, level string
		quick, thorough int
		run   func(c *Check, seed uint64, i int, tier string, st *core.Stats)
		rule  string
		probes []string
	}
	defs := []def{
		{"C01", "exploration", 20000, 200000, runSchedules, "programs x facts generated from the GRL core, each under identity/reverse/random rule-evaluation orders; distinct = event-log fingerprint; non-trivial = at least one firing and at least one condition of another rule flipped by that firing", []string{"transition.true-to-false"}},
		{"C02", "exploration", 20000, 200000, runSchedules, "same generator; non-trivial = at least one firing and (a false->true flip of another rule's condition, or the run ended at quiescence)", []string{"transition.false-to-true"}},
		{"C03", "exploration", 20000, 200000, runSchedules, "rule sets with saliences from {MinInt32,-7,-1,0,0,1,1,5,MaxInt32}; non-trivial = a cycle with >= 2 candidates in the model conflict set", []string{"cycle.ge2-candidates", "cycle.tie-at-top", "exec.choice-among-ge2"}},
		{"C04", "exploration", 20000, 200000, runSchedules, "action lists of 1-5 statements over all path shapes x kinds x backends; non-trivial = at least one firing (facts compared with the model after every firing)", nil},
		{"C06", "exploration", 20000, 200000, runSchedules, "MaxCycle in {0,1,2,3,5,12}, 0-3 listeners; non-trivial = at least one cycle observed", nil},
		{"C10", "exploration", 20000, 200000, runSchedules, "rule sets rich in Retract(self/other/unknown) and Complete at any position; non-trivial = a Retract or Complete took effect", []string{"retract.self", "retract.other", "retract.unknown", "complete.mid-list"}},
		{"C11", "exploration", 20000, 200000, runSchedules, "FetchMatchingRules over rule sets incl. removed rules, equal saliences, erroring conditions; non-trivial = at least one match or an evaluation error surfaced", []string{"fetch.ge2-matches"}},
		{"C13", "exploration", 20000, 200000, runSchedules, "rule sets with call-counted pure methods whose call text is unique; non-trivial = a counted call happened in a run of >= 2 cycles", []string{"counted-call"}},
		{"C14", "fault_enumeration", 1200, 10000, runFaults, "per scenario: every eligible seam event of the fault-free run (quick: all when <= 48, else 48 seeded) x {error, panic, nil fact}, plus natural faults, plus sampled 2-3 fault sequences; non-trivial = a fault fired inside an evaluation or a firing, or a natural error occurred", []string{"fault.in-condition", "fault.in-action"}},
		{"C15", "fault_enumeration", 1200, 10000, runCancels, "per scenario: cancellation at every seam event of the clean run (quick: all when <= 64, else 64 seeded), pre-cancelled, 3 simulated-clock deadlines; non-trivial = the run was cut by cancellation", nil},
	}
	for _, d := range defs {
		Register(&Check{ID: d.id, Level: d.level, Sim: "E", Runs: map[string]int{"quick": d.quick, "thorough": d.thorough},
			Rule: d.rule, Assumptions: assumptionsE, RealVsStub: realVsStubE, Run: d.run, Replay: replayE, RequiredProbes: d.probes})
	}
}
