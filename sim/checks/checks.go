// Package checks wires the simulations to the listed properties: what a run of property X is,
// which oracles count for it, what makes a run non-trivial, how a scenario is replayed.
package checks

import (
	"fmt"
	"sort"

	"grulesim/sim/core"
)

// Check is one registered property check.
type Check struct {
	ID          string
	Level       string // exploration | fault_enumeration
	Sim         string
	Runs        map[string]int // tier -> number of run indices
	Rule        string
	Assumptions []string
	RealVsStub  map[string]string
	// Run executes run index i and records into st (including st.Found).
	Run func(c *Check, seed uint64, i int, tier string, st *core.Stats)
	// Replay re-executes a scenario and returns the violations attributable to this property.
	Replay func(c *Check, sc *core.Scenario) []core.Violation
	// RequiredProbes must all be > 0 over a whole batch; otherwise the generator is broken (exit 2).
	RequiredProbes []string
	Exhaustive  bool
	ExhaustNote string
}

var registry = map[string]*Check{}

func Register(c *Check) { registry[c.ID] = c }

func Get(id string) *Check { return registry[id] }

func IDs() []string {
	var out []string
	for k := range registry {
		out = append(out, k)
	}
	sort.Strings(out)
	return out
}

// RunSeed derives the seed of run i of a property from the batch seed.
func RunSeed(seed uint64, prop string, i int) uint64 {
	return core.Mix(seed, core.HashStr(prop), uint64(i))
}

func must(err error) {
	if err != nil {
		panic(fmt.Sprintf("checks: %v", err))
	}
}
