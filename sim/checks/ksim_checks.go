package checks

import (
	"grulesim/sim/core"
	"grulesim/sim/gen"
	"grulesim/sim/grl"
	"grulesim/sim/ksim"
)

var realVsStubK = map[string]string{
	"real":      "KnowledgeLibrary.NewKnowledgeBaseInstance, every Clone method, WorkingMemory.Clone, pkg.CloneTable, engine Execute/FetchMatchingRules, KnowledgeBase.RemoveRuleEntry, store/load for GRB-sourced libraries",
	"simulated": "the scheduler: tasks are real goroutines released one at a time at intercepted points (node-id draws inside Clone, hooked map loops, every seam event, listener callbacks); the choice of who runs comes from the seeded plan; node ids are task-local",
	"not_run":   "truly parallel execution (only the auxiliary -race arm, when enabled, runs threads in parallel)",
}

func c09Scenario(seed uint64) *core.Scenario {
	p := gen.DefaultProfile()
	p.MaxRules = 3
	p.MaxDepth = 2
	p.MaxActions = 3
	p.PNatural = 2
	p.TemplatePct = 50
	p.PRemoved = 0
	sc := gen.ScenarioFor("C01", seed, p) // the flip template makes memo leaks between instances visible
	sc.Property, sc.Sim = "C09", "K"
	r := core.NewRand(core.Mix(seed, 0xc09))
	g := &gen.G{R: r, Prof: p}
	ex := &ksim.Extra{SchedSeed: r.Uint64(), Style: r.Intn(4), Source: r.PickStr("built", "built", "grb")}
	if r.Chance(1, 5) && len(sc.Program.Rules) > 1 {
		ex.Removed = []string{sc.Program.Rules[r.Intn(len(sc.Program.Rules))].Name}
	}
	if r.Chance(1, 3) {
		ex.SharedEngine, ex.SharedMaxCycle = true, uint64(r.Range(1, 4))
	}
	nt := r.Range(2, 4)
	k := len(sc.Program.Rules)
	exec := func(slot int, op string) ksim.KStep {
		mc := uint64(r.Range(1, 4))
		st := ksim.KStep{Op: op, Slot: slot, Facts: g.Facts(), MaxCycle: mc}
		if r.Chance(1, 2) {
			st.Schedule = g.Schedule(int(mc)+2, k, 2)
		}
		if r.Chance(1, 3) {
			st.Facts = sc.Facts // same facts as another task: the template situation exists there
		}
		return st
	}
	for t := 0; t < nt; t++ {
		script := []ksim.KStep{{Op: "new", Slot: 0}, exec(0, "exec")}
		switch r.Intn(5) {
		case 0:
			script = append(script, exec(0, "fetch"))
		case 1:
			script = append(script, ksim.KStep{Op: "remove", Slot: 0, Rule: sc.Program.Rules[r.Intn(k)].Name}, exec(0, "exec"))
		case 2:
			script = append(script, ksim.KStep{Op: "new", Slot: 1}, exec(1, "exec"), exec(0, "exec"))
		case 3:
			script = append(script, exec(0, "exec"))
		}
		ex.Tasks = append(ex.Tasks, script)
	}
	sc.Facts, sc.Schedule = nil, nil
	ksim.SetExtra(sc, ex)
	return sc
}

// c09KeepLH: what the library-history arm of C09 judges - the first sentence of the property
// ("NewKnowledgeBaseInstance succeeds for every successfully built or loaded knowledge base").
func c09KeepLH(oracle string) bool {
	return oracle == "C09.instantiate-failed" || oracle == "C09.probe-panicked"
}

func runC09(c *Check, seed uint64, i int, tier string, st *core.Stats) {
	if i%4 == 3 {
		// library-history arm: whatever the history of builds (accepted and rejected), removals, stores and
		// loads, every knowledge base of every library can be instantiated after every operation
		hs := lhScenario("C17", RunSeed(seed, "C09-library-history", i))
		hs.Property = "C09"
		st.Probes["library-history-arm.histories"]++
		runLHScenario(c, hs, i, st, c09KeepLH)
	}
	rs := RunSeed(seed, c.ID, i)
	sc := c09Scenario(rs)
	res := ksim.Run(sc)
	st.Evaluations++
	if res.Harness != "" {
		if len(st.Harness) < 5 {
			st.Harness = append(st.Harness, res.Harness)
		}
		return
	}
	st.AddDistinct(res.Conc.Trace)
	st.Probes["yields"] += int64(res.Conc.Yields)
	st.Probes["context-switches"] += int64(res.Conc.Switches)
	st.Probes["context-switches-inside-instance-creation"] += int64(res.Conc.InClone)
	for k, v := range res.Conc.Sites {
		st.Probes["yield-site."+k] += int64(v)
	}
	st.Events += int64(res.Conc.Yields)
	if res.Conc.Switches >= 1 {
		st.AddNonTrivial(res.Conc.Trace)
		ex, _ := ksim.ExtraOf(sc)
		st.AddSample(map[string]interface{}{"grl": sc.GRL, "tasks": len(ex.Tasks), "source": ex.Source, "style": ex.Style, "yields": res.Conc.Yields,
			"context_switches": res.Conc.Switches, "shared_engine": ex.SharedEngine, "plan_prefix": prefix(res.Conc.Plan, 40), "scripts": scriptsOf(ex)}, 2)
	}
	for _, v := range res.Violations {
		st.Probes["violation."+v.Oracle]++
		if len(st.Found) >= maxFoundPerWorker {
			continue
		}
		dup := false
		for _, f := range st.Found {
			if f.V.Oracle == v.Oracle {
				dup = true
			}
		}
		if dup {
			continue
		}
		min, mv := shrinkK(sc, res, v, st)
		st.Found = append(st.Found, core.Found{V: mv, Scenario: min, Original: i})
	}
}

func prefix(p []int, n int) []int {
	if len(p) > n {
		return p[:n]
	}
	return p
}

func scriptsOf(ex *ksim.Extra) [][]string {
	var out [][]string
	for _, t := range ex.Tasks {
		var s []string
		for _, st := range t {
			s = append(s, st.Op)
		}
		out = append(out, s)
	}
	return out
}

func hasK(res *ksim.Result, oracle string) *core.Violation {
	if res.Harness != "" {
		return nil
	}
	for i := range res.Violations {
		if res.Violations[i].Oracle == oracle {
			return &res.Violations[i]
		}
	}
	return nil
}

func shrinkK(sc *core.Scenario, first *ksim.Result, v core.Violation, st *core.Stats) (*core.Scenario, core.Violation) {
	best := sc.Clone()
	bx, _ := ksim.ExtraOf(best)
	bx.Plan = first.Conc.Plan // make the interleaving explicit
	ksim.SetExtra(best, bx)
	bestV := v
	budget := 250
	try := func(c *core.Scenario, x *ksim.Extra) bool {
		if budget <= 0 {
			return false
		}
		budget--
		st.Shrunk++
		ksim.SetExtra(c, x)
		if c.Program != nil {
			c.GRL = grl.PrintProgram(c.Program)
		}
		r := ksim.Run(c)
		if hv := hasK(r, v.Oracle); hv != nil {
			best, bestV = c, *hv
			return true
		}
		return false
	}
	if r := ksim.Run(best); hasK(r, v.Oracle) == nil {
		// the explicit plan does not reproduce (should not happen): keep the seed-driven scenario
		return sc, v
	}
	for pass := 0; pass < 4; pass++ {
		progress := false
		x, _ := ksim.ExtraOf(best)
		// drop tasks
		for t := 0; t < len(x.Tasks) && len(x.Tasks) > 1; {
			c := best.Clone()
			cx, _ := ksim.ExtraOf(c)
			cx.Tasks = append(cx.Tasks[:t], cx.Tasks[t+1:]...)
			var np []int
			for _, id := range cx.Plan {
				switch {
				case id == t:
				case id > t:
					np = append(np, id-1)
				default:
					np = append(np, id)
				}
			}
			cx.Plan = np
			if try(c, cx) {
				progress = true
				x, _ = ksim.ExtraOf(best)
			} else {
				t++
			}
		}
		// drop trailing steps
		for t := 0; t < len(x.Tasks); t++ {
			for len(x.Tasks[t]) > 1 {
				c := best.Clone()
				cx, _ := ksim.ExtraOf(c)
				cx.Tasks[t] = cx.Tasks[t][:len(cx.Tasks[t])-1]
				if !try(c, cx) {
					break
				}
				progress = true
				x, _ = ksim.ExtraOf(best)
			}
		}
		// drop rules
		for i := 0; i < len(best.Program.Rules) && len(best.Program.Rules) > 1; {
			c := best.Clone()
			c.Program.Rules = append(c.Program.Rules[:i], c.Program.Rules[i+1:]...)
			cx, _ := ksim.ExtraOf(c)
			if try(c, cx) {
				progress = true
			} else {
				i++
			}
		}
		// simplify the plan: truncate, then merge runs
		x, _ = ksim.ExtraOf(best)
		for len(x.Plan) > 0 {
			c := best.Clone()
			cx, _ := ksim.ExtraOf(c)
			cx.Plan = cx.Plan[:len(cx.Plan)/2]
			if !try(c, cx) {
				break
			}
			progress = true
			x, _ = ksim.ExtraOf(best)
		}
		for i := 1; i < len(x.Plan) && budget > 0; i++ {
			if x.Plan[i] == x.Plan[i-1] {
				continue
			}
			c := best.Clone()
			cx, _ := ksim.ExtraOf(c)
			cx.Plan[i] = cx.Plan[i-1]
			if try(c, cx) {
				progress = true
				x, _ = ksim.ExtraOf(best)
			}
		}
		if x.Source != "built" {
			c := best.Clone()
			cx, _ := ksim.ExtraOf(c)
			cx.Source = "built"
			if try(c, cx) {
				progress = true
			}
		}
		if !progress {
			break
		}
	}
	best.Violation = &core.ViolationInfo{Oracle: bestV.Oracle, Property: "C09", Message: bestV.Message}
	return best, bestV
}

func replayC09(c *Check, sc *core.Scenario) []core.Violation {
	if sc.Sim == "H" { // library-history arm
		var out []core.Violation
		for _, v := range replayLH(c, sc) {
			if v.Property == "HARNESS" || c09KeepLH(v.Oracle) {
				out = append(out, v)
			}
		}
		return out
	}
	res := ksim.Run(sc)
	if res.Harness != "" {
		return []core.Violation{{Oracle: "HARNESS", Property: "HARNESS", Message: res.Harness}}
	}
	return res.Violations
}

func init() {
	Register(&Check{ID: "C09", Level: "exploration", Sim: "K", Runs: map[string]int{"quick": 3000, "thorough": 40000},
		Rule: "2-4 tasks, each creating 1-2 instances from one library (built or GRB-loaded, possibly with a removed rule) and executing/fetching/removing on its own facts; the interleaving at every yield point (node-id draw inside Clone, hooked loop element, seam event) is drawn from a seeded scheduler with run-length styles {every yield, 70%, 95%, 99% stay}; distinct = hash of the (task, site) yield sequence; non-trivial = at least one context switch between tasks. Library-history arm (every fourth run index): a history of builds (accepted, rejected, reader-failed), removals, stores and loads as in C17, after every operation of which every knowledge base of every library must be instantiable (oracles instantiate-failed, probe-panicked only)",
		Assumptions: []string{"interleaving happens at seam and hook points, not between arbitrary instructions: a same-value race or an unsynchronised global that never changes a result is invisible to the simulation",
			"per-task results are compared with the same script run alone on an identically built library; divergences from the reference model that already occur alone belong to other properties"},
		RealVsStub: realVsStubK, Run: runC09, Replay: replayC09,
		RequiredProbes: []string{"context-switches", "context-switches-inside-instance-creation", "yield-site.id", "yield-site.seam"}})
}
