package checks

import (
	"fmt"
	"strings"

	"grulesim/sim/core"
	"grulesim/sim/esim"
	"grulesim/sim/gen"
	"grulesim/sim/hsim"
)

func c08Scenario(seed uint64) *core.Scenario {
	p := gen.DefaultProfile()
	p.MaxRules = 4
	p.PRetract = 35
	p.PComplete = 15
	p.PNatural = 8
	p.PSelfRetract = 50
	p.TemplatePct = 40
	p.PMutator = 25
	p.MutatorPool = 2
	sc := gen.ScenarioFor("C08", seed, p)
	sc.Sim = "H"
	r := core.NewRand(core.Mix(seed, 0xc08))
	g := &gen.G{R: r, Prof: p}
	n := r.Range(2, 6)
	k := len(sc.Program.Rules)
	for i := 0; i < n; i++ {
		c := core.Call{Mode: "execute", Facts: g.Facts(), MaxCycle: uint64(r.Range(0, 6)), RetErr: r.Chance(1, 4)}
		if i == 0 || r.Chance(1, 3) {
			c.Facts = sc.Facts
		}
		switch r.Intn(10) {
		case 0, 1, 2:
			c.Mode = "fetch"
		case 3, 4:
			c.CancelAt = r.Range(1, 40) // cut short somewhere (ignored when the run is shorter)
		case 5:
			c.Faults = []core.Fault{{At: r.Range(3, 40), Kind: r.PickStr("err", "panic")}}
		}
		if r.Chance(1, 2) {
			c.Schedule = g.Schedule(int(c.MaxCycle)+2, k, 2)
		}
		sc.Calls = append(sc.Calls, c)
	}
	sc.Facts, sc.Schedule = nil, nil
	return sc
}

func runC08(c *Check, seed uint64, i int, tier string, st *core.Stats) {
	rs := RunSeed(seed, c.ID, i)
	sc := c08Scenario(rs)
	res := hsim.RunReuse(sc)
	st.Evaluations++
	if res.Harness != "" {
		if len(st.Harness) < 5 {
			st.Harness = append(st.Harness, res.Harness)
		}
		return
	}
	st.Events += int64(res.Events)
	st.SimNs += res.SimNs
	st.AddDistinct(res.Finger)
	for j := range res.Ends {
		st.Ends[res.Ends[j]]++
		if j > 0 {
			st.Probes[fmt.Sprintf("after-%s.next-%s", res.Ends[j-1], res.Kinds[j])]++
		}
	}
	if len(res.Ends) >= 2 {
		st.AddNonTrivial(res.Finger)
		st.AddSample(map[string]interface{}{"grl": sc.GRL, "calls": len(sc.Calls), "kinds": res.Kinds, "ends": res.Ends, "source": sc.Knobs.Source}, 3)
	}
	for _, v := range res.Violations {
		st.Probes["violation."+v.Oracle]++
		if len(st.Found) >= maxFoundPerWorker {
			continue
		}
		dup := false
		for _, f := range st.Found {
			if f.V.Oracle == v.Oracle {
				dup = true
			}
		}
		if dup {
			continue
		}
		oracle := v.Oracle
		fails := func(c *core.Scenario) bool {
			r := hsim.RunReuse(c)
			if r.Harness != "" {
				return false
			}
			for _, vv := range r.Violations {
				if vv.Oracle == oracle {
					return true
				}
			}
			return false
		}
		// history-level shrinking first (drop calls, simplify calls), then program-level
		best := sc.Clone()
		for changed := true; changed; {
			changed = false
			for j := 0; j < len(best.Calls) && len(best.Calls) > 1; {
				c := best.Clone()
				c.Calls = append(c.Calls[:j], c.Calls[j+1:]...)
				st.Shrunk++
				if fails(c) {
					best, changed = c, true
				} else {
					j++
				}
			}
			for j := range best.Calls {
				for _, f := range []func(cl *core.Call) bool{
					func(cl *core.Call) bool { if len(cl.Schedule) == 0 { return false }; cl.Schedule = nil; return true },
					func(cl *core.Call) bool { if len(cl.Faults) == 0 { return false }; cl.Faults = nil; return true },
					func(cl *core.Call) bool { if cl.CancelAt == 0 { return false }; cl.CancelAt = 0; return true },
					func(cl *core.Call) bool { if !cl.RetErr { return false }; cl.RetErr = false; return true },
					func(cl *core.Call) bool { if cl.MaxCycle == 0 { return false }; cl.MaxCycle--; return true },
				} {
					c := best.Clone()
					if !f(&c.Calls[j]) {
						continue
					}
					st.Shrunk++
					if fails(c) {
						best, changed = c, true
					}
				}
			}
		}
		min, tried := esim.Shrink(best, fails, 300)
		st.Shrunk += int64(tried)
		fr := hsim.RunReuse(min)
		fv := v
		for _, vv := range fr.Violations {
			if vv.Oracle == oracle {
				fv = vv
			}
		}
		min.Violation = &core.ViolationInfo{Oracle: fv.Oracle, Property: "C08", Message: fv.Message}
		st.Found = append(st.Found, core.Found{V: fv, Scenario: min, Original: i})
	}
}

func replayC08(c *Check, sc *core.Scenario) []core.Violation {
	res := hsim.RunReuse(sc)
	if res.Harness != "" {
		return []core.Violation{{Oracle: "HARNESS", Property: "HARNESS", Message: res.Harness}}
	}
	return res.Violations
}

func init() {
	Register(&Check{ID: "C08", Level: "exploration", Sim: "H", Runs: map[string]int{"quick": 30000, "thorough": 300000},
		Rule: "histories of 2-6 calls (Execute, Execute cut by cancellation at a seeded event, Execute with an injected action/condition fault, FetchMatchingRules) on ONE instance, each with its own facts, schedule and cycle budget; every call is compared with the same call on an instance created at that moment (trace, return value, matched rules, final facts); distinct = hash of the calls' event logs; non-trivial = at least two calls were made",
		Assumptions: []string{"the reference for each call is the engine itself on a new instance (differential), so a defect that affects new and reused instances alike is not this property's business",
			"the same generator contract as Sim E (DESIGN.md 4.3)"},
		RealVsStub: realVsStubE, Run: runC08, Replay: replayC08,
		RequiredProbes: []string{"after-quiescent.next-execute", "after-complete.next-execute", "after-limit.next-fetch", "after-acterr.next-execute", "after-cancel.next-execute"}})
}

// ---------------------------------------------------------------------------------------------
// Library histories: C16 and C17

var lhNames = []string{"A1", "A11", "B2", "Cc", "CC", "D4"}

type lhGen struct {
	r     *core.Rand
	u     int64
	alive []map[int]map[string]bool // per lib, per kb: name -> alive (false = removed)
	imgs  []int                      // kb index of each stored image
	last  map[string]hsim.MRule      // "lib/kb/name" -> the rule as it was last built (for token-identical duplicates)
}

func (g *lhGen) state(lib, kb int) map[string]bool {
	for len(g.alive) <= lib {
		g.alive = append(g.alive, map[int]map[string]bool{})
	}
	if g.alive[lib][kb] == nil {
		g.alive[lib][kb] = map[string]bool{}
	}
	return g.alive[lib][kb]
}

func (g *lhGen) rule(name string) hsim.MRule {
	g.u++
	r := hsim.MRule{Name: name, U: 1000 + g.u}
	if g.r.Chance(2, 3) {
		d := fmt.Sprintf("rule %s text %d", name, g.u)
		r.Desc = &d
	}
	if g.r.Chance(2, 3) {
		s := g.r.PickInt64(-2147483648, -7, -1, 0, 1, 1, 5, 2147483647)
		r.Sal = &s
	}
	return r
}

func (g *lhGen) pickName(st map[string]bool, kind int) string {
	var c []string
	for _, n := range lhNames {
		a, ok := st[n]
		switch kind {
		case 0: // never used
			if !ok {
				c = append(c, n)
			}
		case 1: // alive
			if ok && a {
				c = append(c, n)
			}
		case 2: // removed
			if ok && !a {
				c = append(c, n)
			}
		}
	}
	if len(c) == 0 {
		return lhNames[g.r.Intn(len(lhNames))]
	}
	return c[g.r.Intn(len(c))]
}

// decorate prints marker rules as a valid GRL document with varied whitespace, comments, keyword
// case and literal notations.
func decorate(r *core.Rand, rules []hsim.MRule) string {
	kw := func(s string) string {
		switch r.Intn(3) {
		case 0:
			return s
		case 1:
			return strings.ToUpper(s)
		default:
			return strings.ToUpper(s[:1]) + s[1:]
		}
	}
	ws := func() string { return []string{" ", "  ", "\n", "\t", " /* c */ ", " // line\n"}[r.Intn(6)] }
	num := func(v int64) string {
		sign := ""
		if v < 0 {
			sign, v = "-", -v
		}
		switch r.Intn(5) {
		case 0:
			return sign + fmt.Sprintf("0x%X", v)
		case 1:
			return sign + fmt.Sprintf("0X%x", v)
		case 2:
			if v != 0 {
				return sign + fmt.Sprintf("0%o", v)
			}
		}
		return sign + fmt.Sprintf("%d", v)
	}
	var b strings.Builder
	b.WriteString("// generated document\n")
	for _, m := range rules {
		b.WriteString(kw("rule") + ws() + m.Name + ws())
		if m.Desc != nil {
			switch {
			case strings.Contains(*m.Desc, "\""):
				b.WriteString("'" + *m.Desc + "'" + ws())
			case strings.Contains(*m.Desc, "'"):
				b.WriteString("\"" + *m.Desc + "\"" + ws())
			case r.Chance(1, 2):
				b.WriteString("'" + *m.Desc + "'" + ws())
			default:
				b.WriteString("\"" + *m.Desc + "\"" + ws())
			}
		}
		if m.Sal != nil {
			b.WriteString(kw("salience") + ws() + num(*m.Sal) + ws())
		}
		chain := ""
		if r.Chance(1, 60) {
			// a long flat chain of operands without a bracket: grammatical however long it is
			chain = strings.Repeat(r.PickStr(" && F.B == true", " || F.B", " && F.B"), int(r.PickInt64(40, 270, 400))) + " "
		}
		b.WriteString("{" + ws() + kw("when") + ws() + "F.B" + ws() + "==" + ws() + kw("true") + chain + ws() + kw("then") + ws())
		q := "\""
		if r.Chance(1, 3) {
			q = "'"
		}
		extra := ""
		if m.StrLit != "" {
			extra = "F.MS[" + q + m.Name + q + "]" + ws() + "=" + ws() + m.StrLit + ws() + ";" + ws()
		}
		b.WriteString("F.M[" + q + m.Name + q + "]" + ws() + "=" + ws() + num(m.U) + ws() + ";" + ws() + extra + "Retract(" + q + m.Name + q + ")" + ws() + ";" + ws() + "}" + ws())
	}
	return b.String()
}

// malform injects one defect into the plain text of the rules; it returns the text, the class and
// whether the defect is syntactic.
func malform(r *core.Rand, rules []hsim.MRule) (string, string, bool) {
	t := hsim.PlainText(rules)
	rep1 := func(old, new string) string { return strings.Replace(t, old, new, 1) }
	repLast := func(old, new string) string {
		i := strings.LastIndex(t, old)
		if i < 0 {
			return t
		}
		return t[:i] + new + t[i+len(old):]
	}
	switch r.Intn(16) {
	case 0:
		return rep1("rule ", ""), "rule keyword deleted", true
	case 1:
		return rep1("{", ""), "opening brace deleted", true
	case 2:
		return repLast("}", ""), "closing brace deleted", true
	case 3:
		return rep1("when", ""), "when keyword deleted", true
	case 4:
		return rep1("then", ""), "then keyword deleted", true
	case 5:
		return rep1(";", ""), "statement terminator deleted", true
	case 6:
		return rep1("F.B == true", "(F.B == true"), "unbalanced opening bracket", true
	case 7:
		return rep1("F.B == true", "F.B == true)"), "unbalanced closing bracket", true
	case 8:
		c := r.PickStr("#", "@", "$", "~", "`")
		if r.Chance(1, 2) {
			return rep1("F.B ==", "F.B "+c+"=="), "illegal character " + c, true
		}
		return rep1("when", c+" when"), "illegal character " + c, true
	case 9:
		w := r.PickStr("when", "then", "rule", "true", "salience", "false")
		return rep1("rule "+rules[0].Name, "rule "+w), "reserved word " + w + " as rule name", true
	case 10:
		return rep1("F.B == true", ""), "empty condition", true
	case 11:
		i := strings.Index(t, "then")
		j := strings.Index(t, "}")
		if i > 0 && j > i {
			return t[:i+4] + "\n" + t[j:], "empty action list", true
		}
		return rep1(";", ""), "statement terminator deleted", true
	case 12:
		v := r.PickStr("2147483648", "-2147483649", "99999999999", "18446744073709551615", "9223372036854775808")
		if rules[0].Sal != nil {
			return rep1(fmt.Sprintf("salience %d", *rules[0].Sal), "salience "+v), "salience out of range", false
		}
		return rep1(" {", " salience "+v+" {"), "salience out of range", false
	case 13:
		return rep1(fmt.Sprintf("= %d;", rules[0].U), "= "+r.PickStr("99999999999999999999", "9223372036854775808", "-9223372036854775809", "0xFFFFFFFFFFFFFFFF", "18446744073709551615", "0x8000000000000000")+";"), "integer literal out of range", false
	case 14:
		return rep1("Retract(\""+rules[0].Name+"\")", "Retract(\"bad \\q escape\")"), "malformed string escape", false
	default:
		return t + hsim.PlainText(rules[:1]), "rule name twice in one resource", false
	}
}

func lhScenario(prop string, seed uint64) *core.Scenario {
	r := core.NewRand(core.Mix(seed, core.HashStr(prop)))
	g := &lhGen{r: r, last: map[string]hsim.MRule{}}
	ex := &hsim.LExtra{KBs: [][2]string{{"KB", "1"}, {"KB", "2"}, {"Other", "1"}}[:r.Range(1, 3)]}
	n := r.Range(4, 12)
	libs := 1
	for i := 0; i < n; i++ {
		lib := r.Intn(libs)
		kb := r.Intn(len(ex.KBs))
		st := g.state(lib, kb)
		x := r.Intn(100)
		if i == 0 {
			x = 0
		}
		switch {
		case x < 40 || (prop == "C17" && x < 50 && x >= 44):
			nr := r.Range(1, 3)
			op := hsim.LOp{Op: "build", Lib: lib, KB: kb}
			used := map[string]bool{}
			for j := 0; j < nr; j++ {
				kind := []int{0, 0, 1, 2}[r.Intn(4)]
				name := g.pickName(st, kind)
				rl := g.rule(name)
				if prev, ok := g.last[fmt.Sprintf("%d/%d/%s", lib, kb, name)]; ok && st[name] && r.Chance(1, 3) {
					rl = prev // the very same text again: still a duplicate name
				}
				op.Rules = append(op.Rules, rl)
				used[name] = true
			}
			dup := false
			seen := map[string]bool{}
			for _, rl := range op.Rules {
				if st[rl.Name] || seen[rl.Name] {
					dup = true
				}
				seen[rl.Name] = true
			}
			if !dup {
				for _, rl := range op.Rules {
					st[rl.Name] = true
					g.last[fmt.Sprintf("%d/%d/%s", lib, kb, rl.Name)] = rl
				}
			}
			if prop == "C17" && r.Chance(2, 3) {
				for j := range op.Rules {
					if op.Rules[j].Desc != nil && r.Chance(1, 4) {
						// quote characters of the other kind at the edges of a description are plain content
						d := *op.Rules[j].Desc
						switch r.Intn(3) {
						case 0:
							d = "\"Strict\" " + d
						case 1:
							d = d + " 'C'"
						default:
							d = "'" + d + "'"
						}
						op.Rules[j].Desc = &d
					}
				}
				for j := range op.Rules {
					if r.Chance(1, 3) {
						lits := [][2]string{{`'it\'s'`, "it's"}, {`"say \"hi\""`, `say "hi"`}, {`"tab\there"`, "tab\there"}, {`'uni\u00e9'`, "uni\u00e9"}, {`"back\\slash"`, `back\slash`},
							{`'dq " inside'`, `dq " inside`}, {`"sq ' inside"`, "sq ' inside"}, {`''`, ""}, {`"\x41\101"`, "AA"}, {`'new\nline'`, "new\nline"}}
						l := lits[r.Intn(len(lits))]
						op.Rules[j].StrLit, op.Rules[j].Str = l[0], l[1]
					}
				}
				op.Text = decorate(r, op.Rules)
			}
			if r.Chance(1, 5) {
				op.ChunkSeed = r.Uint64() | 2
			}
			if h := core.Mix(seed, uint64(i)+77); op.Text == "" && len(op.Rules) >= 2 && h%3 == 0 {
				op.Multi = 1 + int((h>>8)%uint64(len(op.Rules)-1)) // derived, not drawn: the rest of the stream is unchanged
			}
			ex.Ops = append(ex.Ops, op)
		case prop == "C17" && x < 70:
			nr := r.Range(1, 2)
			var rules []hsim.MRule
			for j := 0; j < nr; j++ {
				rules = append(rules, g.rule(g.pickName(st, 0)))
			}
			if nr == 2 && rules[0].Name == rules[1].Name {
				rules = rules[:1]
			}
			text, class, syn := malform(r, rules)
			ex.Ops = append(ex.Ops, hsim.LOp{Op: "buildbad", Lib: lib, KB: kb, Rules: rules, Text: text, BadClass: class, Syntactic: syn})
		case prop == "C17" && x < 76:
			rules := []hsim.MRule{g.rule(g.pickName(st, 0))}
			ex.Ops = append(ex.Ops, hsim.LOp{Op: "buildfail", Lib: lib, KB: kb, Rules: rules, FailAt: r.Range(1, 4), ChunkSeed: r.Uint64() | 2})
		case x < 52 || (prop == "C17" && x < 80):
			name := g.pickName(st, []int{1, 1, 1, 0, 2}[r.Intn(5)])
			op := "rmlib"
			if r.Chance(2, 5) {
				op = "rmbp"
			}
			if _, ok := st[name]; ok {
				st[name] = false
			}
			ex.Ops = append(ex.Ops, hsim.LOp{Op: op, Lib: lib, KB: kb, Rule: name})
		case x < 64 || (prop == "C17" && x < 86):
			ex.Ops = append(ex.Ops, hsim.LOp{Op: "inst", Lib: lib, KB: kb, Rule: g.pickName(st, 1)})
		case x < 78 || (prop == "C17" && x < 92):
			ex.Ops = append(ex.Ops, hsim.LOp{Op: "store", Lib: lib, KB: kb})
			g.imgs = append(g.imgs, kb)
		default:
			if len(g.imgs) == 0 {
				ex.Ops = append(ex.Ops, hsim.LOp{Op: "store", Lib: lib, KB: kb})
				g.imgs = append(g.imgs, kb)
				continue
			}
			op := hsim.LOp{Op: "load", Lib: lib, Image: r.Intn(len(g.imgs)), IntoLib: r.Intn(libs + 1), Overwrite: r.Chance(2, 3)}
			if r.Chance(1, 3) {
				op.ChunkSeed = r.Uint64() | 2
			}
			if op.IntoLib == libs && libs < 3 {
				libs++
			} else if op.IntoLib >= libs {
				op.IntoLib = libs - 1
			}
			// the generator's own bookkeeping after a load is approximate: it only steers name choice
			ex.Ops = append(ex.Ops, op)
		}
	}
	for oi := range ex.Ops {
		// applications keep one builder per library: two builds out of three go through it
		// (derived, not drawn: the rest of the stream is unchanged)
		ex.Ops[oi].FreshBuilder = core.Mix(seed, uint64(oi)+991)%3 == 0
	}
	sc := &core.Scenario{Property: prop, Sim: "H", Seed: seed}
	hsim.SetLExtra(sc, ex)
	return sc
}

func runLH(c *Check, seed uint64, i int, tier string, st *core.Stats) {
	rs := RunSeed(seed, c.ID, i)
	if c.ID == "C16" && i%8 == 7 {
		// Sim E arm: the application removes a rule from the instance WHILE Execute is running (from the
		// BeginCycle notification of cycle 2 or 3); from that cycle on the rule is neither evaluated nor fired
		sc := gen.ScenarioFor("C10", RunSeed(seed, "C16-removal-during-execute", i), profileFor("C10"))
		sc.Property = "C16"
		if len(sc.Program.Rules) > 0 {
			r := core.NewRand(core.Mix(rs, 0x16))
			sc.Knobs.RemoveAtCycle = uint64(r.Range(2, 3))
			sc.Knobs.RemoveAtCycleRule = sc.Program.Rules[r.Intn(len(sc.Program.Rules))].Name
			if sc.Knobs.Listeners == 0 {
				sc.Knobs.Listeners = 1
			}
			if sc.Knobs.MaxCycle < 4 {
				sc.Knobs.MaxCycle = 4
			}
			for _, n := range sc.Removed {
				if n == sc.Knobs.RemoveAtCycleRule {
					sc.Knobs.RemoveAtCycle = 0
				}
			}
			st.Probes["removal-during-execute-arm.runs"]++
			execE("C16", sc, i, st)
		}
	}
	runLHScenario(c, lhScenario(c.ID, rs), i, st, nil)
}

// runLHScenario runs one library history and minimises what it finds. keep, when set, restricts the
// verdict to some oracles (the library-history arm of C09 judges instantiation only).
func runLHScenario(c *Check, sc *core.Scenario, i int, st *core.Stats, keep func(oracle string) bool) {
	res := hsim.RunLib(sc)
	st.Evaluations++
	if res.Harness != "" {
		if len(st.Harness) < 5 {
			st.Harness = append(st.Harness, res.Harness)
		}
		return
	}
	for k, v := range res.Probes {
		st.Probes[k] += v
	}
	if keep == nil {
		st.AddDistinct(res.Finger)
	}
	nt := res.Probes["removed-alive-rule"] > 0 || res.Probes["build.duplicate-name"] > 0
	if c.ID == "C17" {
		nt = res.Probes["op.buildbad"] > 0 || res.Probes["op.buildfail"] > 0
	}
	if nt && keep == nil {
		st.AddNonTrivial(res.Finger)
		ex, _ := hsim.LExtraOf(sc)
		var ops []string
		for _, o := range ex.Ops {
			s := o.Op
			if o.BadClass != "" {
				s += "[" + o.BadClass + "]"
			}
			if o.Rule != "" {
				s += "(" + o.Rule + ")"
			}
			for _, rl := range o.Rules {
				s += " " + rl.Name
			}
			ops = append(ops, s)
		}
		st.AddSample(map[string]interface{}{"knowledge_bases": len(ex.KBs), "history": ops}, 3)
	}
	for _, v := range res.Violations {
		if keep != nil && !keep(v.Oracle) {
			continue
		}
		st.Probes["violation."+v.Oracle]++
		if len(st.Found) >= maxFoundPerWorker {
			continue
		}
		dup := false
		for _, f := range st.Found {
			if f.V.Oracle == v.Oracle {
				dup = true
			}
		}
		if dup {
			continue
		}
		oracle := v.Oracle
		best := sc.Clone()
		bestV := v
		fails := func(cnd *core.Scenario) bool {
			st.Shrunk++
			r := hsim.RunLib(cnd)
			if r.Harness != "" {
				return false
			}
			for _, vv := range r.Violations {
				if vv.Oracle == oracle {
					bestV = vv
					return true
				}
			}
			return false
		}
		for changed := true; changed; {
			changed = false
			ex, _ := hsim.LExtraOf(best)
			for j := 0; j < len(ex.Ops) && len(ex.Ops) > 1; {
				cnd := best.Clone()
				cx, _ := hsim.LExtraOf(cnd)
				dropped := cx.Ops[j]
				cx.Ops = append(cx.Ops[:j], cx.Ops[j+1:]...)
				if dropped.Op == "store" { // image indices shift
					idx := 0
					for _, o := range ex.Ops[:j] {
						if o.Op == "store" {
							idx++
						}
					}
					for k := range cx.Ops {
						if cx.Ops[k].Op == "load" && cx.Ops[k].Image > idx {
							cx.Ops[k].Image--
						}
					}
				}
				hsim.SetLExtra(cnd, cx)
				if fails(cnd) {
					best, changed = cnd, true
					ex, _ = hsim.LExtraOf(best)
				} else {
					j++
				}
			}
			// drop rules from multi-rule builds, drop decoration
			for j := range ex.Ops {
				if len(ex.Ops[j].Rules) > 1 && ex.Ops[j].Op == "build" {
					for k := 0; k < len(ex.Ops[j].Rules); k++ {
						cnd := best.Clone()
						cx, _ := hsim.LExtraOf(cnd)
						if k >= len(cx.Ops[j].Rules) || len(cx.Ops[j].Rules) < 2 {
							break
						}
						cx.Ops[j].Rules = append(cx.Ops[j].Rules[:k], cx.Ops[j].Rules[k+1:]...)
						if cx.Ops[j].Text != "" {
							cx.Ops[j].Text = decorate(core.NewRand(uint64(k)+1), cx.Ops[j].Rules)
						}
						hsim.SetLExtra(cnd, cx)
						if fails(cnd) {
							best, changed = cnd, true
							ex, _ = hsim.LExtraOf(best)
						}
					}
				}
				quoted := false
				for _, rl := range ex.Ops[j].Rules {
					if rl.Desc != nil && strings.ContainsAny(*rl.Desc, "\"'") {
						quoted = true // the plain printer would have to escape it: keep the decorated text
					}
				}
				if ex.Ops[j].Op == "build" && !quoted && (ex.Ops[j].Text != "" || ex.Ops[j].ChunkSeed != 0) {
					cnd := best.Clone()
					cx, _ := hsim.LExtraOf(cnd)
					cx.Ops[j].Text, cx.Ops[j].ChunkSeed = "", 0
					hsim.SetLExtra(cnd, cx)
					if fails(cnd) {
						best, changed = cnd, true
						ex, _ = hsim.LExtraOf(best)
					}
				}
			}
			if len(ex.KBs) > 1 {
				cnd := best.Clone()
				cx, _ := hsim.LExtraOf(cnd)
				ok := true
				for _, o := range cx.Ops {
					if o.KB >= len(cx.KBs)-1 {
						ok = false
					}
				}
				if ok {
					cx.KBs = cx.KBs[:len(cx.KBs)-1]
					hsim.SetLExtra(cnd, cx)
					if fails(cnd) {
						best, changed = cnd, true
					}
				}
			}
		}
		fails(best)
		best.Violation = &core.ViolationInfo{Oracle: bestV.Oracle, Property: c.ID, Message: bestV.Message}
		st.Found = append(st.Found, core.Found{V: bestV, Scenario: best, Original: i})
	}
}

func replayLH(c *Check, sc *core.Scenario) []core.Violation {
	if sc.Sim == "E" { // the removal-during-execute arm of C16
		return replayE(c, sc)
	}
	res := hsim.RunLib(sc)
	if res.Harness != "" {
		return []core.Violation{{Oracle: "HARNESS", Property: "HARNESS", Message: res.Harness}}
	}
	return res.Violations
}

var realVsStubH = map[string]string{
	"real":      "RuleBuilder.BuildRuleFromResource (ANTLR lexer, parser, listener), KnowledgeLibrary / KnowledgeBase add, remove, instantiate, store, load, engine Execute and FetchMatchingRules for probing, pkg.ReaderResource",
	"simulated": "the history (operation sequence), resource readers that chunk or fail, node and tombstone ids",
	"model":     "per (library, name, version): rule name -> (text version, salience, description, tombstone)",
}

func init() {
	Register(&Check{ID: "C16", Level: "exploration", Sim: "H", Runs: map[string]int{"quick": 24000, "thorough": 250000},
		Rule: "histories of 4-12 operations from {build 1-3 marker rules (fresh, alive or removed names), remove at library or blueprint level, instantiate + remove on the instance, store, load (same/other/new library, overwrite true/false)} over 1-3 knowledge bases; after EVERY operation every knowledge base of every library is instantiated, stored+loaded, fetched and executed on probe facts and compared with the model; distinct = hash of all probe results; non-trivial = the history removed an alive rule or built a duplicate name. Sim E arm (every eighth run index): a generated rule set is executed and listener 0 removes one rule from the instance inside the BeginCycle notification of cycle 2 or 3; oracles removed-rule-evaluated / removed-rule-fired",
		Assumptions: []string{"marker rules identify their text version by the value they write; where the statement is silent (fate of the other rules of a resource rejected for a duplicate) the model adopts what it observes and asserts only what the statement says"},
		RealVsStub:  realVsStubH, Run: runLH, Replay: replayLH,
		RequiredProbes: []string{"removed-alive-rule", "build.duplicate-name", "load.replaced-or-added", "load.overwrite-false-on-existing", "op.inst"}})
	Register(&Check{ID: "C17", Level: "exploration", Sim: "H", Runs: map[string]int{"quick": 24000, "thorough": 250000},
		Rule: "the same histories, mixed with: valid documents printed with varied whitespace, comments, keyword case, literal notations and quoting (must be accepted with every rule's name, description and salience); documents invalid BY CONSTRUCTION in 16 classes (deleted keyword/brace/terminator, unbalanced bracket, illegal character, reserved word as name, empty condition/action list, salience or integer out of range, malformed escape, name twice) (must be rejected, syntactic classes with a GruleErrorReporter); resources whose reader fails; after every operation all knowledge bases are probed as in C16 (a rejected text must not damage what was loaded before); non-trivial = the history contains a rejected or reader-failed build",
		Assumptions: []string{"acceptance exactness is decided on constructed classes only; an independent recogniser for arbitrary token mutants would be input testing and is outside this technique"},
		RealVsStub:  realVsStubH, Run: runLH, Replay: replayLH,
		RequiredProbes: []string{"op.buildbad", "op.buildfail", "op.build"}})
}
