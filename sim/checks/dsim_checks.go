package checks

import (
	"strings"
	"grulesim/sim/core"
	"grulesim/sim/dsim"
	"grulesim/sim/gen"
	"grulesim/sim/grl"
)

var realVsStubD = map[string]string{
	"real":      "KnowledgeLibrary.StoreKnowledgeBaseToWriter / LoadKnowledgeBaseFromReader, Catalog, every Meta reader/writer, BuildKnowledgeBase, the builder and engine used for behavioural probes",
	"simulated": "the medium: writer that fails at write k accepting 0/half/all-but-one bytes, image cut at a byte offset, reader that chunks, ends with (n, io.EOF) or fails at read k; catalog write order; node ids",
	"not_run":   "real files, zip wrappers, URL/Git resources",
}

func c12Scenario(seed uint64) (*core.Scenario, *dsim.Extra) {
	p := gen.DefaultProfile()
	p.MaxRules = 3
	p.MaxDepth = 2
	p.MaxActions = 3
	p.TemplatePct = 25
	p.PRemoved = 0
	sc := gen.ScenarioFor("C12", seed, p)
	sc.Sim = "D"
	sc.Schedule = nil
	if h := core.Mix(seed, 0xb16); h%16 == 0 && len(sc.Program.Rules) > 0 {
		// one field of the stream longer than 64 KiB (the writer has no limit, so the reader must not have one)
		d := strings.Repeat("long description ", 4200)
		sc.Program.Rules[int(h>>8)%len(sc.Program.Rules)].Desc = &d
		sc.GRL = grl.PrintProgram(sc.Program)
	}
	r := core.NewRand(core.Mix(seed, 0xd15c))
	ex := &dsim.Extra{OrderSeed: r.Uint64() | 1}
	if r.Chance(1, 4) {
		ex.OrderSeed = 0 // sorted write order
	}
	if r.Chance(1, 5) && len(sc.Program.Rules) > 1 {
		ex.Removed = []string{sc.Program.Rules[r.Intn(len(sc.Program.Rules))].Name}
	}
	g := &gen.G{R: r, Prof: p}
	for i := 0; i < 3; i++ {
		pc := dsim.ProbeCase{Facts: g.Facts(), MaxCycle: uint64(r.Range(1, 6))}
		if i == 0 {
			pc.Facts = sc.Facts
		}
		if r.Chance(1, 2) {
			pc.Schedule = g.Schedule(int(pc.MaxCycle)+2, len(sc.Program.Rules), 2)
		}
		ex.Probes = append(ex.Probes, pc)
	}
	dsim.SetExtra(sc, ex)
	return sc, ex
}

func runC12(c *Check, seed uint64, i int, tier string, st *core.Stats) {
	rs := RunSeed(seed, c.ID, i)
	sc, ex := c12Scenario(rs)
	hits, herr := dsim.Explore(sc, ex, tier, st)
	if herr != "" {
		if len(st.Harness) < 5 {
			st.Harness = append(st.Harness, herr)
		}
		return
	}
	st.AddDistinct(core.Mix(core.HashStr(sc.GRL), ex.OrderSeed))
	st.AddSample(map[string]interface{}{"grl": sc.GRL, "order_seed": ex.OrderSeed, "removed": ex.Removed, "probes": len(ex.Probes)}, 2)
	for _, h := range hits {
		st.Probes["violation."+h.V.Oracle]++
		if len(st.Found) >= maxFoundPerWorker {
			continue
		}
		dup := false
		for _, f := range st.Found {
			if f.V.Oracle == h.V.Oracle {
				dup = true
			}
		}
		if dup {
			continue
		}
		min, hv := shrinkD(sc, &h, st)
		st.Found = append(st.Found, core.Found{V: hv, Scenario: min, Original: i})
	}
}

// shrinkD drops rules and actions while some position of the same operation class still shows
// the same oracle; the position is re-discovered for every candidate.
func shrinkD(sc *core.Scenario, h *dsim.Hit, st *core.Stats) (*core.Scenario, core.Violation) {
	best := sc.Clone()
	bestHit := *h
	try := func(c *core.Scenario) bool {
		ex := bestHit.Ex
		pos := ex
		pos.Op = h.Ex.Op
		// search the whole class again (positions move when the program changes)
		search := pos
		search.K, search.Off = 0, 0
		cls := search
		cls.Op = h.Ex.Op
		full := cls
		full.Op = ""
		_ = full
		tmp := core.NewStats()
		e2 := cls
		e2.Op = classOp(h.Ex.Op)
		hits, herr := dsim.Explore(c, &e2, "quick", tmp)
		st.Shrunk++
		if herr != "" {
			return false
		}
		for _, x := range hits {
			if x.V.Oracle == h.V.Oracle {
				best, bestHit = c, x
				return true
			}
		}
		return false
	}
	for pass := 0; pass < 3; pass++ {
		progress := false
		for i := 0; i < len(best.Program.Rules) && len(best.Program.Rules) > 1; {
			c := best.Clone()
			c.Program.Rules = append(c.Program.Rules[:i], c.Program.Rules[i+1:]...)
			c.GRL = grl.PrintProgram(c.Program)
			if try(c) {
				progress = true
			} else {
				i++
			}
		}
		for ri := 0; ri < len(best.Program.Rules); ri++ {
			for ai := 0; ai < len(best.Program.Rules[ri].Then) && len(best.Program.Rules[ri].Then) > 1; {
				c := best.Clone()
				t := c.Program.Rules[ri].Then
				c.Program.Rules[ri].Then = append(t[:ai], t[ai+1:]...)
				c.GRL = grl.PrintProgram(c.Program)
				if try(c) {
					progress = true
				} else {
					ai++
				}
			}
		}
		if !progress {
			break
		}
	}
	ex := bestHit.Ex
	dsim.SetExtra(best, &ex)
	best.Violation = &core.ViolationInfo{Oracle: bestHit.V.Oracle, Property: "C12", Message: bestHit.V.Message}
	return best, bestHit.V
}

// classOp maps a single-position operation to the enumeration that re-discovers positions.
func classOp(op string) string { return "enum:" + op }

func replayC12(c *Check, sc *core.Scenario) []core.Violation {
	ex, err := dsim.ExtraOf(sc)
	if err != nil {
		return []core.Violation{{Oracle: "HARNESS", Property: "HARNESS", Message: err.Error()}}
	}
	st := core.NewStats()
	hits, herr := dsim.Explore(sc, ex, "quick", st)
	if herr != "" {
		return []core.Violation{{Oracle: "HARNESS", Property: "HARNESS", Message: herr}}
	}
	var out []core.Violation
	for _, h := range hits {
		out = append(out, h.V)
	}
	return out
}

func init() {
	Register(&Check{ID: "C12", Level: "fault_enumeration", Sim: "D", Runs: map[string]int{"quick": 640, "thorough": 1600},
		Rule: "per generated rule set: clean store/load/re-store/re-load with metadata and behavioural comparison on 3 fact sets; EVERY write-call index failed once; truncation at every write boundary plus 256 seeded interior offsets (thorough: every byte offset); 5 reader chunkings; 66 sampled (thorough: all) failing read calls; overwrite flag. evaluations = single store/load operations; distinct/non-trivial = distinct (rule set, operation class, write-order seed) triples (the number of positions tried per class is in fault_kinds_fired) - every counted operation lands inside a stream",
		Assumptions: []string{"behavioural equivalence is judged on 3 generated fact sets per rule set under Sim E (identical event trace, final facts and return value), not on every fact set",
			"a strict prefix of a stored stream can never be a complete stream, so any successful load of one is reported"},
		RealVsStub: realVsStubD, Run: runC12, Replay: replayC12,
		ExhaustNote: "exhaustive per scenario over write-call indices (both tiers) and over byte offsets (thorough); programs are sampled"})
}
