package checks

import (
	"encoding/json"
	"fmt"
	"os"
	"regexp"
	"strings"
	"time"

	"github.com/hyperjumptech/grule-rule-engine/pkg/simhook"

	"grulesim/sim/core"
	"grulesim/sim/dsim"
	"grulesim/sim/esim"
	"grulesim/sim/gen"
	"grulesim/sim/grl"
)

// C20Extra is the Sim D payload for C20: a base artefact, the damage done to it and how it is delivered.
type C20Extra struct {
	Kind   string      `json:"kind"`
	Base   []byte      `json:"base"`
	Ops    []dsim.COp  `json:"ops"`
	Reader dsim.LoadReq `json:"reader"` // Data is filled from Base+Ops at run time
}

var c20child *dsim.Child

func c20Do(req *dsim.LoadReq, timeout time.Duration) (*dsim.LoadResp, bool, bool, string) {
	exe, _ := os.Executable()
	if c20child == nil {
		c, err := dsim.StartChild(exe)
		if err != nil {
			return nil, false, false, "cannot start loader child: " + err.Error()
		}
		c20child = c
	}
	resp, died, hung := c20child.Do(req, timeout)
	if died || hung {
		if os.Getenv("VERIF_DEBUG") != "" {
			fmt.Fprintf(os.Stderr, "child died=%v hung=%v stderr tail:\n%s\n", died, hung, c20child.Tail.String())
		}
		c20child.Kill()
		c20child = nil
	}
	return resp, died, hung, ""
}

// jsonRuleDoc generates a JSON rule document.
func jsonRuleDoc(r *core.Rand) []byte {
	var cond func(d int) interface{}
	leaf := func() interface{} {
		switch r.Intn(3) {
		case 0:
			return map[string]interface{}{"obj": r.PickStr("F.I", "F.P.X", "G.I8", "F.S")}
		case 1:
			return map[string]interface{}{"const": r.Intn(50)}
		}
		return map[string]interface{}{"const": r.PickStr("a", "x y", "q\"uote")}
	}
	cond = func(d int) interface{} {
		if d <= 0 {
			return map[string]interface{}{"eq": []interface{}{leaf(), leaf()}}
		}
		switch r.Intn(4) {
		case 0:
			return map[string]interface{}{r.PickStr("and", "or"): []interface{}{cond(d - 1), cond(d - 1), cond(d - 1)}}
		case 1:
			return map[string]interface{}{"not": []interface{}{cond(d - 1)}}
		case 2:
			return map[string]interface{}{r.PickStr("gt", "gte", "lt", "lte", "eq"): []interface{}{map[string]interface{}{r.PickStr("plus", "minus", "mul", "div", "mod", "bor", "band"): []interface{}{leaf(), leaf()}}, leaf()}}
		}
		return map[string]interface{}{"eq": []interface{}{leaf(), leaf()}}
	}
	rule := func(i int) map[string]interface{} {
		var when interface{} = cond(r.Intn(4))
		if r.Chance(1, 5) {
			when = "F.I > 1 && F.B"
		}
		m := map[string]interface{}{"name": fmt.Sprintf("J%d", i), "when": when,
			"then": []interface{}{"F.I = 2", map[string]interface{}{"set": []interface{}{map[string]interface{}{"obj": "F.P.X"}, map[string]interface{}{"const": 5}}},
				map[string]interface{}{"call": []interface{}{"Retract", map[string]interface{}{"const": fmt.Sprintf("J%d", i)}}}}}
		if r.Chance(1, 2) {
			m["desc"] = "json rule"
		}
		if r.Chance(1, 2) {
			m["salience"] = r.Intn(20) - 5
		}
		return m
	}
	var doc interface{}
	if r.Chance(1, 2) {
		doc = rule(0)
	} else {
		var rs []interface{}
		for i := 0; i < r.Range(1, 3); i++ {
			rs = append(rs, rule(i))
		}
		doc = rs
	}
	b, _ := json.Marshal(doc)
	return b
}

var boundaryNumbers = []uint64{0, 1, 7, 0xFF, 0xFFFF, 1 << 20, 1<<31 - 1, 1 << 31, 1 << 32, 1 << 34, 1 << 40, 1 << 62, 1<<63 - 1, 1 << 63, ^uint64(0)}

func c20Scenario(seed uint64) (*core.Scenario, *C20Extra, string) {
	r := core.NewRand(core.Mix(seed, 0xc20))
	ex := &C20Extra{Kind: r.PickStr("grl", "jsonrule", "jsonfact", "grb", "grb", "grb")}
	p := gen.DefaultProfile()
	p.MaxRules = 3
	p.MaxDepth = 2
	p.TemplatePct = 0
	base := gen.Scenario("C20", core.Mix(seed, 1), p)
	var fieldStarts []int
	switch ex.Kind {
	case "grl":
		ex.Base = []byte(base.GRL)
	case "jsonrule":
		ex.Base = jsonRuleDoc(r)
	case "jsonfact":
		ex.Base = base.Facts.J
	case "grb":
		esim.InstallIDs("n")
		simhook.Order = func(_ string, keys []string) []string { return keys }
		lib, err := esim.BuildLibrary(base.GRL)
		if err != nil {
			simhook.Order, simhook.ID = nil, nil
			return nil, nil, "generated program rejected: " + err.Error()
		}
		w := &dsim.Writer{}
		err = lib.StoreKnowledgeBaseToWriter(w, esim.KBName, esim.KBVersion)
		simhook.Order, simhook.ID = nil, nil
		if err != nil {
			return nil, nil, "store failed: " + err.Error()
		}
		ex.Base = w.Image
		prev := 0
		for _, b := range w.Bounds {
			if b-prev == 8 {
				fieldStarts = append(fieldStarts, prev)
			}
			prev = b
		}
	}
	n := len(ex.Base)
	if ex.Kind == "grl" && r.Chance(1, 6) {
		// structure-aware hostile but LEGAL shapes: deeply (balanced) parenthesised condition, long chains of
		// selectors / member accesses / method calls after a call
		t := string(ex.Base)
		if p := strings.Index(t, "when\n    "); p >= 0 {
			p += len("when\n    ")
			q := p + strings.Index(t[p:], "\n")
			k := int(r.PickInt64(8, 16, 24, 40, 60))
			switch r.Intn(6) {
			case 4:
				// a long FLAT chain of one binary operator (no bracket anywhere): legal, and left-deep in the tree
				k = int(r.PickInt64(50, 200, 600, 1000))
				unit := r.PickStr(" && F.B == true", " || F.B", " && F.I + 1 > 0")
				if r.Chance(1, 40) {
					// known finding KF2: what remains after D13 is quadratic. One fixed shape whose allocation is
					// far beyond the bound, so that the verdict does not hang on a wall-clock measurement.
					k, unit = 4000, " && F.B == true"
				}
				ex.Ops = append(ex.Ops, dsim.COp{Kind: "insert", Pos: q, Text: strings.Repeat(unit, k)})
			case 5:
				k = int(r.PickInt64(50, 200, 600, 1000))
				ex.Ops = append(ex.Ops, dsim.COp{Kind: "insert", Pos: q, Text: " && F.I" + strings.Repeat(r.PickStr(" + 1", " * F.I", " - G.I"), k) + " != 7"})
			case 0:
				ex.Ops = append(ex.Ops, dsim.COp{Kind: "insert", Pos: q, Text: strings.Repeat(")", k)}, dsim.COp{Kind: "insert", Pos: p, Text: strings.Repeat("(", k)})
			case 1:
				ex.Ops = append(ex.Ops, dsim.COp{Kind: "insert", Pos: q, Text: " && F.Tag()" + strings.Repeat("[0]", k) + " == 1"})
			case 2:
				ex.Ops = append(ex.Ops, dsim.COp{Kind: "insert", Pos: q, Text: " && F.Tag()" + strings.Repeat(".ToUpper()", k) + " == \"A\""})
			default:
				ex.Ops = append(ex.Ops, dsim.COp{Kind: "insert", Pos: q, Text: " && F.P" + strings.Repeat(".Q", k) + " == 1"})
			}
			sc := &core.Scenario{Property: "C20", Sim: "D", Seed: seed}
			return sc, ex, ""
		}
	}
	if ex.Kind != "grb" && r.Chance(1, 25) {
		// tiny inputs (0-4 bytes), among them byte order marks whole and cut: whatever peeks at the first bytes
		tiny := r.PickStr("\xEF\xBB\xBF", "\xEF\xBB", "\xEF", "\xEF\xBB\xBF{}", "\xEF\xBB\xBFnull", "\xFF\xFE", "\xFE\xFF", "\xFF", "\x00", "{", "[", "\"", "'", "t", "n", "-", "0", " ", "//", "/*", "r", "\\u")
		ex.Ops = []dsim.COp{{Kind: "trunc", Pos: 0}, {Kind: "insert", Pos: 0, Raw: []byte(tiny)}}
		return &core.Scenario{Property: "C20", Sim: "D", Seed: seed}, ex, ""
	}
	if ex.Kind == "jsonfact" && r.Chance(1, 5) {
		// odd but well-formed fact documents
		doc := r.PickStr("null", " null ", "\n\tnull\n", "[]", "[1,2,3]", "3", "\"str\"", "true", "{}", "{\"a\":null}", "{\"a\":{\"b\":null}}", "1e999", "-0",
			strings.Repeat("[", 2000)+strings.Repeat("]", 2000), strings.Repeat("{\"a\":", 1000)+"1"+strings.Repeat("}", 1000), "{\"n\":123456789012345678901234567890}", "{\"a\":1,\"a\":2}")
		ex.Ops = []dsim.COp{{Kind: "trunc", Pos: 0}, {Kind: "insert", Pos: 0, Text: doc}}
		return &core.Scenario{Property: "C20", Sim: "D", Seed: seed}, ex, ""
	}
	if ex.Kind == "jsonrule" && r.Chance(1, 5) {
		// a well-formed rule whose condition nests operator objects as OPERANDS, a narrow chain k levels deep
		k := int(r.PickInt64(8, 16, 24, 32, 48))
		op := r.PickStr("plus", "minus", "mul", "and", "or", "eq", "bor")
		chain := "{\"obj\":\"F.I\"}"
		for i := 0; i < k; i++ {
			if op == "and" || op == "or" {
				chain = "{\"" + op + "\":[" + chain + ",{\"eq\":[{\"obj\":\"F.I\"},{\"const\":1}]}]}"
			} else {
				chain = "{\"" + op + "\":[" + chain + ",{\"const\":1}]}"
			}
		}
		when := chain
		if op != "and" && op != "or" && op != "eq" {
			when = "{\"gt\":[" + chain + ",{\"const\":0}]}"
		}
		doc := "{\"name\":\"Deep\",\"when\":" + when + ",\"then\":[\"F.I = 2\"]}"
		ex.Ops = []dsim.COp{{Kind: "trunc", Pos: 0}, {Kind: "insert", Pos: 0, Text: doc}}
		return &core.Scenario{Property: "C20", Sim: "D", Seed: seed}, ex, ""
	}
	var idPos []int
	if ex.Kind == "grb" {
		for _, m := range nodeID.FindAllIndex(ex.Base, -1) {
			idPos = append(idPos, m[0])
		}
	}
	nops := r.Range(1, 4)
	if r.Chance(1, 12) {
		nops = 0 // undamaged: calibrates the bound on valid inputs
	}
	for i := 0; i < nops && n > 0; i++ {
		pos := r.Intn(n)
		switch x := r.Intn(12); {
		case x < 1:
			ex.Ops = append(ex.Ops, dsim.COp{Kind: "flip", Pos: pos, Val: uint64(r.Intn(8))})
		case x < 3 && len(idPos) > 1:
			// a node reference overwritten with another id of the same stream: dangling or cyclic references
			src := r.Intn(len(idPos))
			dst := r.Intn(len(idPos))
			if r.Chance(2, 3) {
				// a record names its own id first and its children's ids right after: copying an id over one
				// of the next few id fields tends to turn a child reference into a self reference (a cycle)
				dst = src + r.Range(1, 5)
				if dst >= len(idPos) {
					dst = len(idPos) - 1
				}
			}
			ex.Ops = append(ex.Ops, dsim.COp{Kind: "splice", Pos: idPos[dst], Src: idPos[src], Len: 11})
		case x < 3:
			ex.Ops = append(ex.Ops, dsim.COp{Kind: "flip", Pos: pos, Val: uint64(r.Intn(8))})
		case x < 6 && ex.Kind == "grb" && len(fieldStarts) > 0:
			ex.Ops = append(ex.Ops, dsim.COp{Kind: "setlen", Pos: fieldStarts[r.Intn(len(fieldStarts))], Val: boundaryNumbers[r.Intn(len(boundaryNumbers))]})
		case x < 6:
			ins := r.PickStr("99999999999999999999", "((((((((((((((((((((((((((((((((", "\"", "\\", "{", "[[[[[[[[[[[[[[[[", "1e999", "-", "/*", "\x00", "salience 99999999999", strings.Repeat("!", 40), strings.Repeat("(", 300), strings.Repeat("[", 400), strings.Repeat("{\"and\":[", 200))
			ex.Ops = append(ex.Ops, dsim.COp{Kind: "insert", Pos: pos, Text: ins})
		case x < 7:
			ex.Ops = append(ex.Ops, dsim.COp{Kind: "trunc", Pos: pos})
		case x < 8:
			ex.Ops = append(ex.Ops, dsim.COp{Kind: "splice", Pos: pos, Src: r.Intn(n), Len: r.Range(1, 64)})
		case x < 9:
			ex.Ops = append(ex.Ops, dsim.COp{Kind: "zerotail", Pos: pos})
		case x < 10:
			ex.Ops = append(ex.Ops, dsim.COp{Kind: "dup", Pos: pos, Len: r.Range(1, 512)})
		case x < 11:
			ex.Ops = append(ex.Ops, dsim.COp{Kind: "random", Len: r.Range(0, 300), Val: r.Uint64()})
		default:
			ex.Ops = append(ex.Ops, dsim.COp{Kind: "trunc", Pos: 0}) // empty input
		}
	}
	if r.Chance(1, 3) {
		ex.Reader.ChunkSeed = r.Uint64() | 1
		ex.Reader.MaxChunk = int(r.PickInt64(1, 3, 64))
		ex.Reader.EOFWithData = r.Chance(1, 2)
	}
	sc := &core.Scenario{Property: "C20", Sim: "D", Seed: seed}
	return sc, ex, ""
}

var hexAddr = regexp.MustCompile(`0x[0-9a-f]+`)
var nodeID = regexp.MustCompile(`n[0-9]{10}`)

// flatChain is the largest number of binary operators in a stretch of text without any bracket, brace or
// semicolon: the length of the longest flat operator chain.
func flatChain(d []byte) int {
	best, cur := 0, 0
	inOp := false
	for _, c := range d {
		switch c {
		case '(', ')', '[', ']', '{', '}', ';':
			cur, inOp = 0, false
		case '&', '|', '+', '-', '*', '/', '%', '<', '>', '=', '!':
			if !inOp {
				cur++
				if cur > best {
					best = cur
				}
			}
			inOp = true
		default:
			inOp = false
		}
	}
	return best
}

// bracketRun is the longest run of consecutive opening brackets in a text input.
func bracketRun(d []byte) int {
	best, cur := 0, 0
	for _, c := range d {
		if c == '(' || c == '[' {
			cur++
			if cur > best {
				best = cur
			}
		} else if c != ' ' && c != '\n' && c != '\t' {
			cur = 0
		}
	}
	return best
}

func c20Eval(ex *C20Extra, timeout time.Duration) (v *core.Violation, herr string, resp *dsim.LoadResp) {
	data := dsim.Apply(ex.Base, ex.Ops)
	defer func() {
		if v != nil && (ex.Kind == "grl" || ex.Kind == "jsonrule") {
			v.Message += fmt.Sprintf(" (longest run of opening brackets in the input: %d)", bracketRun(data))
			if ex.Kind == "grl" {
				v.Message += fmt.Sprintf(" (longest flat chain of binary operators in the input: %d)", flatChain(data))
			}
		}
	}()
	req := ex.Reader
	req.Kind, req.Data = ex.Kind, data
	var died, hung bool
	resp, died, hung, herr = c20Do(&req, timeout)
	if herr != "" {
		return nil, herr, nil
	}
	switch {
	case hung:
		return &core.Violation{Oracle: "C20.resource-blowup", Property: "C20", Message: fmt.Sprintf("%s loader did not return within %v on %d input bytes", ex.Kind, timeout, len(data))}, "", nil
	case died:
		return &core.Violation{Oracle: "C20.resource-blowup", Property: "C20", Message: fmt.Sprintf("%s loader ended the process (heap beyond the 3 GiB watchdog, or a fatal runtime error such as out of memory or stack overflow) on %d input bytes", ex.Kind, len(data))}, "", nil
	case resp.Outcome == "panic":
		return &core.Violation{Oracle: "C20.panic", Property: "C20", Message: fmt.Sprintf("%s loader panicked in %s: %s", ex.Kind, resp.Frame, hexAddr.ReplaceAllString(resp.Msg, "0x#"))}, "", resp
	case resp.WallUs > 10_000_000 && len(data) <= 1<<16:
		return &core.Violation{Oracle: "C20.resource-blowup", Property: "C20", Message: fmt.Sprintf("%s loader needed %.1f s for %d input bytes", ex.Kind, float64(resp.WallUs)/1e6, len(data))}, "", resp
	case resp.Alloc > dsim.Bound(len(data)):
		return &core.Violation{Oracle: "C20.resource-blowup", Property: "C20", Message: fmt.Sprintf("%s loader allocated %d MiB for %d input bytes (bound %d MiB)", ex.Kind, resp.Alloc>>20, len(data), dsim.Bound(len(data))>>20)}, "", resp
	}
	return nil, "", resp
}

func c20Timeout(n int) time.Duration {
	return 12*time.Second + time.Duration(n/65536)*10*time.Second
}

func runC20(c *Check, seed uint64, i int, tier string, st *core.Stats) {
	rs := RunSeed(seed, c.ID, i)
	sc, ex, herr := c20Scenario(rs)
	if herr != "" {
		if len(st.Harness) < 5 {
			st.Harness = append(st.Harness, herr)
		}
		return
	}
	data := dsim.Apply(ex.Base, ex.Ops)
	v, herr, resp := c20Eval(ex, c20Timeout(len(data)))
	st.Evaluations++
	if herr != "" {
		if len(st.Harness) < 5 {
			st.Harness = append(st.Harness, herr)
		}
		return
	}
	st.Probes["loader."+ex.Kind]++
	for _, op := range ex.Ops {
		st.Faults[op.Kind]++
	}
	if ex.Reader.ChunkSeed != 0 {
		st.Faults["reader-chunking"]++
	}
	if resp != nil {
		st.Ends[ex.Kind+"."+resp.Outcome]++
		if len(ex.Ops) == 0 {
			st.Probes["undamaged."+resp.Outcome]++
			if resp.Outcome != "ok" && len(st.Harness) < 5 {
				st.Harness = append(st.Harness, "undamaged "+ex.Kind+" artefact was not loaded: "+resp.Msg)
			}
			if ratio := int64(resp.Alloc) * 100 / int64(dsim.Bound(len(data))); ratio > st.Probes["undamaged.max-alloc-percent-of-bound"] {
				st.Probes["undamaged.max-alloc-percent-of-bound"] = ratio
			}
		}
		if resp.WallUs > st.Probes["max-load-wall-us"] {
			st.Probes["max-load-wall-us"] = resp.WallUs
		}
	}
	fp := core.Mix(core.HashStr(string(data)), core.HashStr(ex.Kind))
	st.AddDistinct(fp)
	if len(ex.Ops) > 0 {
		st.AddNonTrivial(fp)
		st.AddSample(map[string]interface{}{"loader": ex.Kind, "base_bytes": len(ex.Base), "damage": ex.Ops, "chunked_reader": ex.Reader.ChunkSeed != 0}, 3)
	}
	if v == nil {
		return
	}
	sig := v.Oracle + "|" + ex.Kind + "|" + firstWords(v.Message)
	if v.Oracle == "C20.resource-blowup" {
		sig = fmt.Sprintf("%s|%s|deep=%v|chain=%v", v.Oracle, ex.Kind, bracketRun(data) >= 100, ex.Kind == "grl" && flatChain(data) >= 2000)
	}
	for _, f := range st.Found {
		if f.V.Sig == sig {
			st.Probes["repeat."+v.Oracle]++ // same finding again: already confirmed and minimised once in this worker
			return
		}
	}
	// a hang or abort is confirmed by a solo re-run with three times the budget before it is believed
	if v.Oracle == "C20.resource-blowup" {
		v2, _, _ := c20Eval(ex, 3*c20Timeout(len(data)))
		if v2 == nil || v2.Oracle != v.Oracle {
			if os.Getenv("VERIF_DEBUG") != "" {
				fmt.Fprintf(os.Stderr, "UNCONFIRMED first=%+v second=%+v kind=%s ops=%+v\n", v, v2, ex.Kind, ex.Ops)
			}
			st.Probes["unconfirmed."+v.Oracle]++
			timeBased := strings.Contains(v.Message, " needed ") || strings.Contains(v.Message, "did not return")
			if timeBased {
				// a wall-clock excess that a re-run with three times the budget does not show was load on the
				// machine: counted in the evidence, neither a verdict nor machinery trouble
				st.Probes["unconfirmed.wall-clock-only"]++
			} else if len(st.Harness) < 5 {
				st.Harness = append(st.Harness, "unconfirmed "+v.Oracle+" (not reproduced alone): machinery trouble, not a verdict")
			}
			return
		}
	}
	st.Probes["violation."+v.Oracle]++
	if len(st.Found) >= 12 {
		return
	}
	// minimise: drop damage operations, then shorten the base from the end
	best := *ex
	same := func(cand *C20Extra) bool {
		st.Shrunk++
		d := dsim.Apply(cand.Base, cand.Ops)
		vv, _, _ := c20Eval(cand, 3*c20Timeout(len(d)))
		return vv != nil && vv.Oracle == v.Oracle && (v.Oracle == "C20.resource-blowup" || firstWords(vv.Message) == firstWords(v.Message))
	}
	for j := 0; j < len(best.Ops) && len(best.Ops) > 1; {
		cand := best
		cand.Ops = append(append([]dsim.COp{}, best.Ops[:j]...), best.Ops[j+1:]...)
		if same(&cand) {
			best = cand
		} else {
			j++
		}
	}
	if best.Reader.ChunkSeed != 0 {
		cand := best
		cand.Reader = dsim.LoadReq{}
		if same(&cand) {
			best = cand
		}
	}
	v.Sig = sig
	b, _ := json.Marshal(best)
	sc.Extra = b
	sc.Violation = &core.ViolationInfo{Oracle: v.Oracle, Property: "C20", Message: v.Message}
	st.Found = append(st.Found, core.Found{V: *v, Scenario: sc, Original: i})
}

func firstWords(s string) string {
	// signature of a finding: loader + frame, without sizes
	s = regexp.MustCompile(`[0-9]+`).ReplaceAllString(s, "#")
	if len(s) > 120 {
		s = s[:120]
	}
	return s
}

func replayC20(c *Check, sc *core.Scenario) []core.Violation {
	var ex C20Extra
	if err := json.Unmarshal(sc.Extra, &ex); err != nil {
		return []core.Violation{{Oracle: "HARNESS", Property: "HARNESS", Message: err.Error()}}
	}
	d := dsim.Apply(ex.Base, ex.Ops)
	v, herr, _ := c20Eval(&ex, 3*c20Timeout(len(d)))
	if c20child != nil {
		c20child.Kill()
		c20child = nil
	}
	if herr != "" {
		return []core.Violation{{Oracle: "HARNESS", Property: "HARNESS", Message: herr}}
	}
	if v == nil {
		return nil
	}
	return []core.Violation{*v}
}

// CloseC20 ends the loader child of this process, if any.
func CloseC20() {
	if c20child != nil {
		c20child.Kill()
		c20child = nil
	}
}

var _ = grl.PrintProgram

func init() {
	Register(&Check{ID: "C20", Level: "exploration", Sim: "D", Runs: map[string]int{"quick": 40000, "thorough": 500000},
		Rule: "valid GRL text, JSON rule text, JSON fact text and binary knowledge-base images (from real stores) are damaged on the simulated disk with 1-4 operations from {bit flip, 8-byte length/count field overwritten with a boundary number, truncation, splice, zero-filled tail, duplicated block, inserted hostile fragment (deep nesting, huge numbers, unterminated tokens), random bytes, empty}, delivered through chunking readers, and loaded in a child process guarded by a 3 GiB heap watchdog; distinct = hash of (loader, damaged bytes); non-trivial = at least one damage operation applied",
		Assumptions: []string{"robustness against EVERY byte string is not claimed: inputs are seeded damage of valid artefacts plus short random strings, up to about 64 KiB",
			"allocation is measured as runtime.MemStats.TotalAlloc delta around the call; bound = 64 MiB + 64 KiB per input byte",
			"a hang or a process abort is reported only when it reproduces alone with three times the time budget; otherwise the run exits 2"},
		RealVsStub: map[string]string{"real": "builder.BuildRuleFromResource, pkg.NewJSONResourceFromResource + ParseJSONRule(set), DataContext.AddJSON, KnowledgeLibrary.LoadKnowledgeBaseFromReader, pkg.ReaderResource", "simulated": "stored bytes and their damage, reader chunking, the process boundary (child process with a heap watchdog)"},
		Run:        runC20, Replay: replayC20,
		RequiredProbes: []string{"loader.grl", "loader.jsonrule", "loader.jsonfact", "loader.grb", "undamaged.ok"}})
}
