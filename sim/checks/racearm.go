package checks

import (
	"encoding/json"
	"fmt"
	"os"
	"sync"

	"github.com/hyperjumptech/grule-rule-engine/ast"
	"github.com/hyperjumptech/grule-rule-engine/engine"

	"grulesim/sim/core"
	"grulesim/sim/esim"
	"grulesim/sim/grl"
	"grulesim/sim/ksim"
)

// race_arm.go: the auxiliary arm of C09 (2 000 scenarios in the quick tier, 20 000 in the thorough tier). It is NOT simulation: the same task
// scripts run on real goroutines in a binary built with -race; only a race-detector report or a
// fatal "concurrent map" error counts. It adds same-value races and unsynchronised globals that
// cannot change a result under cooperative scheduling and are therefore invisible to Sim K.

func raceFacts(f *grl.Facts) (ast.IDataContext, error) {
	st := grl.NewState(f)
	dc := ast.NewDataContext()
	for k, v := range st {
		if k == "J" {
			if err := dc.AddJSON("J", f.J); err != nil {
				return nil, err
			}
			continue
		}
		if err := dc.Add(k, v); err != nil {
			return nil, err
		}
	}
	return dc, nil
}

// RaceScenario runs one Sim K scenario with truly parallel goroutines.
func RaceScenario(sc *core.Scenario, repeats int) error {
	ex, err := ksim.ExtraOf(sc)
	if err != nil {
		return err
	}
	lib, err := esim.BuildLibrary(grl.PrintProgram(sc.Program))
	if err != nil {
		return err
	}
	for _, n := range ex.Removed {
		lib.RemoveRuleEntry(n, esim.KBName, esim.KBVersion)
	}
	var sharedEngine *engine.GruleEngine
	if ex.SharedEngine {
		sharedEngine = &engine.GruleEngine{MaxCycle: ex.SharedMaxCycle}
	}
	for rep := 0; rep < repeats; rep++ {
		var wg sync.WaitGroup
		start := make(chan struct{})
		for _, script := range ex.Tasks {
			script := script
			wg.Add(1)
			go func() {
				defer wg.Done()
				defer func() { _ = recover() }()
				<-start
				var inst [2]*ast.KnowledgeBase
				for _, st := range script {
					switch st.Op {
					case "new":
						kb, err := lib.NewKnowledgeBaseInstance(esim.KBName, esim.KBVersion)
						if err == nil {
							inst[st.Slot] = kb
						}
					case "remove":
						if inst[st.Slot] != nil {
							inst[st.Slot].RemoveRuleEntry(st.Rule)
						}
					case "exec", "fetch":
						kb := inst[st.Slot]
						if kb == nil {
							continue
						}
						dc, err := raceFacts(st.Facts)
						if err != nil {
							continue
						}
						eng := &engine.GruleEngine{MaxCycle: st.MaxCycle}
						if sharedEngine != nil {
							eng = sharedEngine
						}
						if st.Op == "fetch" {
							_, _ = eng.FetchMatchingRules(dc, kb)
						} else {
							_ = eng.Execute(dc, kb)
						}
					}
				}
			}()
		}
		close(start)
		wg.Wait()
	}
	return nil
}

// RaceArmWorker runs scenarios shard, shard+n, ... and prints progress markers so that the parent
// can attribute a race report (which ends the process) to the scenario in flight.
func RaceArmWorker(seed uint64, shard, nshards, n int) int {
	for i := shard; i < n; i += nshards {
		sc := c09Scenario(RunSeed(seed, "C09", i))
		fmt.Fprintf(os.Stderr, "RACEARM-BEGIN %d\n", i)
		if err := RaceScenario(sc, 3); err != nil {
			fmt.Fprintf(os.Stderr, "RACEARM-HARNESS %v\n", err)
			return 2
		}
	}
	fmt.Fprintf(os.Stderr, "RACEARM-DONE\n")
	return 0
}

// RaceArmScenarioJSON returns the scenario of run index i (for the replay file).
func RaceArmScenarioJSON(seed uint64, i int) []byte {
	sc := c09Scenario(RunSeed(seed, "C09", i))
	sc.Sim = "K-race-arm"
	b, _ := json.MarshalIndent(sc, "", " ")
	return b
}
