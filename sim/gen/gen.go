// Package gen generates scenarios: programs from the documented GRL core (well-typed by
// construction), fact states from boundary-rich domains, schedules, knobs and fault plans.
// Every choice is drawn from one core.Rand.
package gen

import (
	"encoding/json"
	"fmt"
	"time"

	"grulesim/sim/core"
	"grulesim/sim/grl"
)

// Profile steers the swarm: which features a batch emphasises.
type Profile struct {
	MaxRules     int
	MaxDepth     int
	MaxActions   int
	PRetract     int // percent chance that an action list contains a Retract
	PComplete    int
	PMutator     int
	PCounted     int // percent chance that a sub-expression is a counted method call
	PSelfRetract int // percent chance that a rule ends with Retract(self)
	PNilPtr      int // percent chance that F.P is nil
	PNatural     int // percent chance of a deliberately failing sub-expression (natural fault)
	PJSON        int // weight of JSON paths
	PTopLevel    int // weight of top-level variables
	PComputedSel int // percent chance of a computed selector
	PRemoved     int // percent chance that one rule is removed from the library
	MaxCycles    []uint64
	Listeners    []int
	Sources      []string
	RetErrPct    int
	Mode         string
	HotBias      int // percent chance that a path is taken from the hot set
	ReusePct     int // percent chance that a sub-expression is reused verbatim
	WriteOtherFact int // percent chance that assignment targets avoid fact G (C13)
	TemplatePct    int // percent chance that a directed template is added
	PFieldMethod   int // percent chance that a method call is one whose result depends on a field (Level/Label)
	// MutatorPool > 0: mutator call texts are drawn from a pool of that many literals, so the same call text
	// occurs in several rules. Only for checks whose oracle is differential (C08), because a repeated
	// action-side call text is executed once per Execute by the engine (memoized), which the model does not mirror.
	MutatorPool int
}

// DefaultProfile is the general-purpose Sim E profile.
func DefaultProfile() Profile {
	return Profile{
		MaxRules: 5, MaxDepth: 3, MaxActions: 4,
		PRetract: 25, PComplete: 8, PMutator: 8, PCounted: 15, PSelfRetract: 35,
		PNilPtr: 6, PNatural: 4, PJSON: 12, PTopLevel: 12, PComputedSel: 10, PRemoved: 8,
		MaxCycles: []uint64{0, 1, 2, 3, 5, 8, 12},
		Listeners: []int{1, 1, 1, 2, 3, 0},
		Sources:   []string{"direct", "direct", "grb", "reclone"},
		RetErrPct: 20, Mode: "execute", HotBias: 65, ReusePct: 30, TemplatePct: 40, PFieldMethod: 25,
	}
}

type pathInfo struct {
	p     *grl.Path
	t     grl.Type
	exact bool // value has exactly the Go type a method parameter of this family needs
	dest  bool // assignable
	mapEl bool // map entry: needs exactly the element type on assignment
	json  bool
	top   bool
	fact  string
	ptrnum bool // pointer to a number: only used inside arithmetic, comparisons and as a destination
	iface  bool // element of a Go []interface{}: read like ptrnum, selector stays literal
	wonly  bool // never read (the engine offers no string functions on an interface element): destination only
}

// G is the generator state for one program.
type G struct {
	R    *core.Rand
	Prof Profile

	paths []pathInfo
	hot   []int
	pool  map[grl.Type][]*grl.Expr
	names []string
	newKeys bool
	usedCounted map[string]bool
	mutN int
	allowWonly bool
}

func lit(i int64) *grl.Expr { return grl.LitInt(i) }

func (g *G) buildPaths() {
	add := func(p *grl.Path, t grl.Type, exact, dest bool) *pathInfo {
		g.paths = append(g.paths, pathInfo{p: p, t: t, exact: exact, dest: dest, fact: p.Root})
		return &g.paths[len(g.paths)-1]
	}
	for _, f := range []string{"F", "G"} {
		add(grl.P(f+".I"), grl.TInt, true, true)
		add(grl.P(f+".I32"), grl.TInt, false, true)
		add(grl.P(f+".I8"), grl.TInt, false, true)
		add(grl.P(f+".D"), grl.TInt, false, true)
		add(grl.P(f+".Mn"), grl.TFloat, false, true)
		add(grl.P(f+".Gr"), grl.TUint, false, true)
		add(grl.P(f+".U64"), grl.TUint, false, true)
		add(grl.P(f+".U16"), grl.TUint, false, true)
		add(grl.P(f+".U8"), grl.TUint, false, true)
		add(grl.P(f+".F"), grl.TFloat, true, true)
		add(grl.P(f+".F32"), grl.TFloat, false, true)
		add(grl.P(f+".S"), grl.TString, true, true)
		add(grl.P(f+".S2"), grl.TString, true, true)
		add(grl.P(f+".B"), grl.TBool, true, true)
		add(grl.P(f+".T"), grl.TTime, true, true)
		add(grl.P(f+".PN"), grl.TInt, false, true).ptrnum = true
		add(grl.P(f+".P.X"), grl.TInt, true, true)
		add(grl.P(f+".P.Y"), grl.TString, true, true)
		add(grl.P(f+".P.Z"), grl.TFloat, true, true)
		add(grl.P(f+".P.Q.V"), grl.TInt, true, true)
		add(grl.P(f+".P.Q.W"), grl.TString, true, true)
		for i := int64(0); i < 3; i++ {
			add(grl.P(f+".A").Idx(lit(i)), grl.TInt, true, true)
			add(grl.P(f+".AS").Idx(lit(i)), grl.TString, true, true)
			add(grl.P(f+".AF").Idx(lit(i)), grl.TFloat, false, true)
		}
		for i := int64(0); i < 2; i++ {
			add(grl.P(f+".L").Idx(lit(i)).Dot("X"), grl.TInt, true, true)
			add(grl.P(f+".L").Idx(lit(i)).Dot("Y"), grl.TString, true, true)
			add(grl.P(f+".L").Idx(lit(i)).Dot("Z"), grl.TFloat, true, true)
		}
		for _, k := range []string{"k1", "k2"} {
			add(grl.P(f+".MP").Idx(grl.LitStr(k)).Dot("X"), grl.TInt, true, true)
			add(grl.P(f+".MP").Idx(grl.LitStr(k)).Dot("Y"), grl.TString, true, true)
		}
		for _, k := range []string{"k1", "k2"} {
			add(grl.P(f+".M").Idx(grl.LitStr(k)), grl.TInt, true, true).mapEl = true
			add(grl.P(f+".MS").Idx(grl.LitStr(k)), grl.TString, true, true).mapEl = true
		}
		for k := int64(1); k <= 2; k++ {
			add(grl.P(f+".MI").Idx(lit(k)), grl.TInt, true, true).mapEl = true
		}
		pi := add(grl.P(f+".AI").Idx(lit(0)), grl.TInt, false, true)
		pi.ptrnum, pi.iface = true, true
		pi = add(grl.P(f+".AI").Idx(lit(2)), grl.TFloat, false, true)
		pi.ptrnum, pi.iface = true, true
		pi = add(grl.P(f+".AI").Idx(lit(1)), grl.TString, false, true)
		pi.iface, pi.wonly = true, true
	}
	for n := 0; n < g.Prof.PTopLevel/4+1; n++ {
		add(grl.P("N"), grl.TInt, true, true).top = true
		add(grl.P("Z"), grl.TString, true, true).top = true
	}
	for n := 0; n < g.Prof.PJSON/4+1; n++ {
		add(grl.P("J.n"), grl.TFloat, true, true).json = true
		add(grl.P("J.s"), grl.TString, true, true).json = true
		add(grl.P("J.b"), grl.TBool, true, true).json = true
		add(grl.P("J.o.k"), grl.TFloat, true, true).json = true
		add(grl.P("J.a").Idx(lit(int64(n%3))), grl.TFloat, true, true).json = true
	}
	// the same members addressed with a selector (J["n"] is J.n): one place, two texts
	add(grl.P("J").Idx(grl.LitStr("n")), grl.TFloat, true, true).json = true
	add(grl.P("J").Idx(grl.LitStr("s")), grl.TString, true, true).json = true
	add(grl.P("J").Idx(grl.LitStr("b")), grl.TBool, true, true).json = true
	add(grl.P("J.o").Idx(grl.LitStr("k")), grl.TFloat, true, true).json = true
	// hot set: a handful of paths that conditions read and actions write preferentially
	nh := g.R.Range(3, 6)
	for i := 0; i < nh; i++ {
		g.hot = append(g.hot, g.R.Intn(len(g.paths)))
	}
}

func (g *G) pickPath(t grl.Type, needExact, needDest bool) *pathInfo {
	ok := func(pi *pathInfo) bool {
		if pi.t != t || (needExact && !pi.exact) || (needDest && !pi.dest) || (pi.wonly && !g.allowWonly) {
			return false
		}
		return true
	}
	if g.R.Chance(g.Prof.HotBias, 100) {
		var c []int
		for _, h := range g.hot {
			if ok(&g.paths[h]) {
				c = append(c, h)
			}
		}
		if len(c) > 0 {
			return &g.paths[c[g.R.Intn(len(c))]]
		}
	}
	var c []int
	for i := range g.paths {
		if ok(&g.paths[i]) {
			c = append(c, i)
		}
	}
	if len(c) == 0 {
		return nil
	}
	return &g.paths[c[g.R.Intn(len(c))]]
}

// withSelector possibly replaces a literal slice selector by a computed one that evaluates to
// a small in-range value most of the time.
func (g *G) maybeComputedSel(pi *pathInfo) *grl.Path {
	p := grl.ClonePath(pi.p)
	if len(p.Steps) == 0 || pi.json || pi.top || pi.iface || !g.R.Chance(g.Prof.PComputedSel, 100) {
		return p
	}
	last := &p.Steps[len(p.Steps)-1]
	if last.Sel == nil {
		return p
	}
	if last.Sel.LitK == "int" {
		switch g.R.Intn(3) {
		case 0:
			last.Sel = grl.PathE(grl.P(pi.fact + ".I8"))
		case 1:
			last.Sel = grl.Bin("%", grl.PathE(grl.P(pi.fact+".I")), lit(3))
		default:
			last.Sel = grl.Bin("+", lit(0), lit(last.Sel.I))
		}
	} else if last.Sel.LitK == "string" {
		if g.R.Chance(1, 2) {
			last.Sel = grl.PathE(grl.P(pi.fact + ".S2"))
		} else {
			last.Sel = grl.Bin("+", grl.LitStr("k"), lit(int64(g.R.Range(1, 2))))
		}
	}
	return p
}

func (g *G) remember(t grl.Type, e *grl.Expr) *grl.Expr {
	g.pool[t] = append(g.pool[t], e)
	return e
}

func (g *G) reuse(t grl.Type, exact bool) *grl.Expr {
	if exact {
		return nil
	}
	if p := g.pool[t]; len(p) > 0 && g.R.Chance(g.Prof.ReusePct, 100) {
		return grl.CloneExpr(p[g.R.Intn(len(p))])
	}
	return nil
}

var smallInts = []int64{0, 1, 2, 3, 5, 7, 10, 12}
var smallFloats = []float64{0.25, 0.5, 1.5, 2.0, 2.75, 4.0, 10.5}
var smallStrs = []string{"", "a", "ab", "abc", "k1", "k2", "Tag", "x y", "a\"b", "c\\d", "é☃", "[x]", "'q'", "tab\there"}

// Expr generates a well-typed expression of type t. exact demands the exact Go type a method
// parameter of that family needs (int64 / float64 / string / bool).
func (g *G) Expr(t grl.Type, depth int, exact bool) *grl.Expr {
	if e := g.reuse(t, exact); e != nil {
		return e
	}
	leaf := depth <= 0 || g.R.Chance(25, 100)
	switch t {
	case grl.TInt:
		if leaf {
			if g.R.Chance(35, 100) {
				if g.R.Chance(1, 8) {
					return lit(0 - g.R.PickInt64(1, 2, 7, 1000)) // negative literal
				}
				return lit(g.R.PickInt64(smallInts...))
			}
			pi := g.pickPath(grl.TInt, exact, false)
			if pi.ptrnum {
				return grl.Bin("+", grl.PathE(grl.ClonePath(pi.p)), lit(0)) // never a bare right-hand side
			}
			return grl.PathE(g.maybeComputedSel(pi))
		}
		switch g.R.Intn(10) {
		case 0, 1, 2:
			op := g.R.PickStr("+", "-", "*")
			return g.remember(t, grl.Bin(op, g.Expr(grl.TInt, depth-1, false), g.Expr(grl.TInt, depth-1, false)))
		case 3:
			// int op uint -> int64
			return g.remember(t, grl.Bin(g.R.PickStr("+", "*"), g.Expr(grl.TInt, depth-1, false), g.Expr(grl.TUint, depth-1, false)))
		case 4:
			return g.remember(t, grl.Bin("%", g.Expr(grl.TInt, depth-1, false), lit(g.R.PickInt64(2, 3, 5, 7))))
		case 5:
			return g.remember(t, grl.Bin(g.R.PickStr("&", "|"), g.Expr(grl.TInt, depth-1, false), g.Expr(grl.TInt, depth-1, false)))
		case 6, 7:
			return g.remember(t, g.call(grl.TInt, depth))
		case 8:
			if !exact { // Len/Index/Count yield Go int, not int64
				return g.remember(t, g.vfnInt(depth))
			}
			fallthrough
		default:
			return g.remember(t, grl.Bin("+", g.Expr(grl.TInt, depth-1, false), lit(g.R.PickInt64(smallInts...))))
		}
	case grl.TUint:
		if leaf || exact {
			pi := g.pickPath(grl.TUint, false, false)
			return grl.PathE(grl.ClonePath(pi.p))
		}
		return g.remember(t, grl.Bin(g.R.PickStr("+", "*", "|", "&"), g.Expr(grl.TUint, depth-1, false), g.Expr(grl.TUint, depth-1, false)))
	case grl.TFloat:
		if leaf {
			if g.R.Chance(35, 100) {
				if g.R.Chance(1, 8) {
					return grl.LitFloat(0 - smallFloats[g.R.Intn(len(smallFloats))])
				}
				return grl.LitFloat(smallFloats[g.R.Intn(len(smallFloats))])
			}
			pi := g.pickPath(grl.TFloat, exact, false)
			if pi.ptrnum {
				return grl.Bin("*", grl.PathE(grl.ClonePath(pi.p)), lit(1)) // never a bare right-hand side
			}
			return grl.PathE(g.maybeComputedSel(pi))
		}
		switch g.R.Intn(6) {
		case 0, 1:
			return g.remember(t, grl.Bin(g.R.PickStr("+", "-", "*"), g.Expr(grl.TFloat, depth-1, false), g.Expr(grl.TFloat, depth-1, false)))
		case 2:
			return g.remember(t, grl.Bin(g.R.PickStr("+", "-", "*"), g.Expr(grl.TFloat, depth-1, false), g.Expr(grl.TInt, depth-1, false)))
		case 3:
			return g.remember(t, grl.Bin("/", g.Expr(g.numType(), depth-1, false), lit(g.R.PickInt64(2, 4, 8))))
		case 4:
			if g.R.Chance(1, 3) {
				// global math built-ins take float64 exactly
				if g.R.Chance(1, 2) {
					n := g.R.Range(1, 3)
					args := make([]*grl.Expr, n)
					for i := range args {
						args[i] = g.Expr(grl.TFloat, 0, true)
					}
					return g.remember(t, &grl.Expr{K: "bfn", Fn: g.R.PickStr("Max", "Min"), Args: args})
				}
				return g.remember(t, &grl.Expr{K: "bfn", Fn: g.R.PickStr("Abs", "Floor", "Ceil", "Round", "Trunc"), Args: []*grl.Expr{g.Expr(grl.TFloat, 1, true)}})
			}
			return g.remember(t, g.call(grl.TFloat, depth))
		default:
			return g.remember(t, grl.Bin("+", g.Expr(grl.TInt, depth-1, false), g.Expr(grl.TFloat, depth-1, false)))
		}
	case grl.TString:
		if leaf {
			if g.R.Chance(35, 100) {
				return grl.LitStr(smallStrs[g.R.Intn(len(smallStrs))])
			}
			pi := g.pickPath(grl.TString, exact, false)
			return grl.PathE(g.maybeComputedSel(pi))
		}
		switch g.R.Intn(6) {
		case 0, 1:
			return g.remember(t, grl.Bin("+", g.Expr(grl.TString, depth-1, false), g.Expr(grl.TString, depth-1, false)))
		case 2:
			return g.remember(t, grl.Bin("+", g.Expr(grl.TString, depth-1, false), g.Expr(grl.TInt, depth-1, false)))
		case 3:
			if g.R.Chance(1, 4) {
				return g.remember(t, &grl.Expr{K: "vfn", L: g.atomStr(depth), Fn: "Replace", Args: []*grl.Expr{grl.LitStr(g.R.PickStr("a", "k", "x y", "")), grl.LitStr(g.R.PickStr("", "b", "kk"))}})
			}
			return g.remember(t, &grl.Expr{K: "vfn", L: g.atomStr(depth), Fn: g.R.PickStr("ToUpper", "ToLower", "Trim")})
		case 4:
			return g.remember(t, g.call(grl.TString, depth))
		default:
			return g.remember(t, grl.Bin("+", g.Expr(grl.TInt, depth-1, false), g.Expr(grl.TString, depth-1, false)))
		}
	case grl.TBool:
		if leaf {
			switch g.R.Intn(4) {
			case 0:
				pi := g.pickPath(grl.TBool, false, false)
				return grl.PathE(grl.ClonePath(pi.p))
			default:
				return g.cmp(0)
			}
		}
		switch g.R.Intn(10) {
		case 0, 1, 2:
			return g.remember(t, g.cmp(depth-1))
		case 3, 4:
			return g.remember(t, grl.Bin("&&", g.Expr(grl.TBool, depth-1, false), g.Expr(grl.TBool, depth-1, false)))
		case 5, 6:
			return g.remember(t, grl.Bin("||", g.Expr(grl.TBool, depth-1, false), g.Expr(grl.TBool, depth-1, false)))
		case 7:
			return g.remember(t, grl.Not(g.Expr(grl.TBool, depth-1, false)))
		case 8:
			switch g.R.Intn(5) {
			case 0:
				return g.remember(t, &grl.Expr{K: "vfn", L: g.atomStr(depth), Fn: "MatchString", Args: []*grl.Expr{grl.LitStr(g.R.PickStr("^a", "b$", "a.c", "k[12]", "^$", "x y", "[a-c]+", "T(a|e)g"))}})
			case 1:
				n := g.R.Range(1, 3)
				args := make([]*grl.Expr, n)
				for i := range args {
					args[i] = g.Expr(grl.TString, 0, false)
				}
				return g.remember(t, &grl.Expr{K: "vfn", L: g.atomStr(depth), Fn: "In", Args: args})
			}
			fn := g.R.PickStr("Contains", "HasPrefix", "HasSuffix")
			return g.remember(t, &grl.Expr{K: "vfn", L: g.atomStr(depth), Fn: fn, Args: []*grl.Expr{g.Expr(grl.TString, 0, false)}})
		default:
			switch g.R.Intn(5) {
			case 3:
				return &grl.Expr{K: "bfn", Fn: "StringContains", Args: []*grl.Expr{g.Expr(grl.TString, 0, false), g.Expr(grl.TString, 0, false)}}
			case 4:
				return &grl.Expr{K: "bfn", Fn: g.R.PickStr("IsTimeBefore", "IsTimeAfter"), Args: []*grl.Expr{grl.PathE(grl.P("F.T")), grl.PathE(grl.P("G.T"))}}
			case 0:
				return g.remember(t, g.call(grl.TBool, depth))
			case 1:
				return &grl.Expr{K: "bfn", Fn: "IsNil", Args: []*grl.Expr{grl.PathE(grl.P(g.R.PickStr("F", "G") + ".P"))}}
			default:
				return &grl.Expr{K: "bfn", Fn: "IsZero", Args: []*grl.Expr{g.Expr(g.numType(), 0, false)}}
			}
		}
	case grl.TTime:
		return grl.PathE(grl.P(g.R.PickStr("F", "G") + ".T"))
	}
	panic("gen: unknown type " + string(t))
}

func (g *G) numType() grl.Type {
	return []grl.Type{grl.TInt, grl.TInt, grl.TUint, grl.TFloat}[g.R.Intn(4)]
}

// atomStr returns a string-typed atom (receiver of a string built-in).
func (g *G) atomStr(depth int) *grl.Expr {
	if g.R.Chance(15, 100) {
		return grl.LitStr(smallStrs[g.R.Intn(len(smallStrs))])
	}
	pi := g.pickPath(grl.TString, false, false)
	return grl.PathE(grl.ClonePath(pi.p))
}

func (g *G) vfnInt(depth int) *grl.Expr {
	switch g.R.Intn(5) {
	case 4:
		return &grl.Expr{K: "bfn", Fn: g.R.PickStr("GetTimeYear", "GetTimeMonth", "GetTimeDay"), Args: []*grl.Expr{grl.PathE(grl.P(g.R.PickStr("F", "G") + ".T"))}}
	case 0:
		return &grl.Expr{K: "vfn", L: g.atomStr(depth), Fn: "Len"}
	case 1:
		f := g.R.PickStr("F", "G")
		c := g.R.PickStr("A", "AS", "AF")
		if !g.newKeys && g.R.Chance(1, 3) {
			c = g.R.PickStr("M", "MS")
		}
		return &grl.Expr{K: "vfn", L: grl.PathE(grl.P(f + "." + c)), Fn: "Len"}
	case 2:
		return &grl.Expr{K: "vfn", L: g.atomStr(depth), Fn: g.R.PickStr("Index", "Count", "LastIndex"), Args: []*grl.Expr{grl.LitStr(g.R.PickStr("a", "b", "k"))}}
	default:
		return &grl.Expr{K: "vfn", L: g.atomStr(depth), Fn: "Compare", Args: []*grl.Expr{g.Expr(grl.TString, 0, false)}}
	}
}

func (g *G) cmp(depth int) *grl.Expr {
	op := g.R.PickStr("==", "!=", "<", "<=", ">", ">=")
	switch g.R.Intn(8) {
	case 0, 1, 2, 3:
		return grl.Bin(op, g.Expr(g.numType(), depth, false), g.Expr(g.numType(), depth, false))
	case 4, 5:
		return grl.Bin(op, g.Expr(grl.TString, depth, false), g.Expr(grl.TString, depth, false))
	case 6:
		return grl.Bin(g.R.PickStr("==", "!="), g.Expr(grl.TBool, 0, false), grl.LitBool(g.R.Chance(1, 2)))
	default:
		return grl.Bin(op, grl.PathE(grl.P("F.T")), grl.PathE(grl.P("G.T")))
	}
}

// call generates a pure fact method call of return type t.
func (g *G) call(t grl.Type, depth int) *grl.Expr {
	recv := grl.P(g.R.PickStr("F", "G", "G"))
	d := depth - 1
	if d > 1 {
		d = 1
	}
	switch t {
	case grl.TInt:
		if g.R.Chance(g.Prof.PFieldMethod, 100) {
			return &grl.Expr{K: "call", Path: recv, Fn: "Level"}
		}
		if g.R.Chance(1, 3) {
			n := g.R.Intn(4)
			args := make([]*grl.Expr, n)
			for i := range args {
				args[i] = g.Expr(grl.TInt, d, true)
			}
			return &grl.Expr{K: "call", Path: recv, Fn: "Sum", Args: args}
		}
		return &grl.Expr{K: "call", Path: recv, Fn: "Cost", Args: []*grl.Expr{g.Expr(grl.TInt, d, true)}}
	case grl.TFloat:
		return &grl.Expr{K: "call", Path: recv, Fn: "Scale", Args: []*grl.Expr{g.Expr(grl.TFloat, d, true)}}
	case grl.TString:
		if g.R.Chance(g.Prof.PFieldMethod, 100) {
			if g.R.Chance(1, 2) {
				return &grl.Expr{K: "call", Path: recv, Fn: "LabelOf", Args: []*grl.Expr{grl.LitStr(g.R.PickStr("x y", "a", "New York", ""))}}
			}
			return &grl.Expr{K: "call", Path: recv, Fn: "Label"}
		}
		if g.R.Chance(1, 2) {
			return &grl.Expr{K: "call", Path: recv, Fn: "Tag"}
		}
		return &grl.Expr{K: "call", Path: recv, Fn: "Join", Args: []*grl.Expr{g.Expr(grl.TString, d, true), g.Expr(grl.TString, d, true)}}
	default:
		return &grl.Expr{K: "call", Path: recv, Fn: "IsBig", Args: []*grl.Expr{g.Expr(grl.TInt, d, true)}}
	}
}

// natural returns a boolean expression that fails to evaluate on most fact states.
func (g *G) natural() *grl.Expr {
	switch g.R.Intn(13) {
	case 10: // a key of the wrong kind (and one that a loose conversion would turn into an existing key)
		f := g.R.PickStr("F", "G")
		switch g.R.Intn(3) {
		case 0:
			return grl.Bin(">=", grl.PathE(grl.P(f+".M").Idx(lit(65))), lit(0))
		case 1:
			return grl.Bin(">=", grl.PathE(grl.P(f+".MI").Idx(grl.LitFloat(g.R.PickStr2F(1.0, 2.75, 1.5)))), lit(0))
		default:
			return grl.Bin(">=", grl.PathE(grl.P(f+".MI").Idx(grl.LitStr("1"))), lit(0))
		}
	case 11:
		return &grl.Expr{K: "vfn", L: grl.PathE(grl.P("F.S")), Fn: "MatchString", Args: []*grl.Expr{grl.LitStr(g.R.PickStr("a(", "[b", "*"))}} // invalid pattern
	case 12:
		return grl.Bin("==", grl.PathE(grl.P("F.MI").Idx(lit(g.R.PickInt64(0, 9, -1)))), lit(1)) // missing integer key
	case 8:
		return grl.Bin("==", grl.PathE(grl.P("F.A").Idx(grl.PathE(grl.P("F.S")))), lit(1)) // string selector on a slice
	case 9:
		return grl.Bin("==", grl.PathE(grl.P("G.A").Idx(grl.PathE(grl.P("G.B")))), lit(0)) // boolean selector on a slice
	case 6:
		return grl.Bin("==", &grl.Expr{K: "call", Path: grl.P(g.R.PickStr("F", "G")), Fn: "Boom", Args: []*grl.Expr{lit(1)}}, lit(1)) // user method panics with a string
	case 7:
		return grl.Bin("==", &grl.Expr{K: "call", Path: grl.P(g.R.PickStr("F", "G")), Fn: "BoomErr", Args: []*grl.Expr{lit(2)}}, lit(1)) // user method panics with an error value
	case 0:
		return grl.Bin("==", grl.PathE(grl.P("F.A").Idx(lit(g.R.PickInt64(3, 7, 99)))), lit(1)) // index out of range
	case 1:
		return grl.Bin("==", grl.PathE(grl.P("F.M").Idx(grl.LitStr("nokey"))), lit(1)) // missing key
	case 2:
		return grl.Bin("==", grl.Bin("%", grl.PathE(grl.P("F.I")), grl.Bin("-", grl.PathE(grl.P("G.I8")), grl.PathE(grl.P("G.I8")))), lit(0)) // % 0
	case 3:
		return grl.Bin(">", grl.PathE(grl.P("F.S")), lit(3)) // kind mismatch
	case 4:
		return grl.Bin("==", grl.PathE(grl.P("Missing.X")), lit(1)) // missing fact
	default:
		return grl.Bin("==", &grl.Expr{K: "call", Path: grl.P("F"), Fn: "Cost", Args: []*grl.Expr{grl.PathE(grl.P("F.I8"))}}, lit(1)) // wrong argument kind -> panic
	}
}

func (g *G) assign(pi *pathInfo) *grl.Action {
	op := "="
	if g.R.Chance(40, 100) {
		switch pi.t {
		case grl.TInt, grl.TUint, grl.TFloat:
			op = g.R.PickStr("+=", "-=", "*=", "/=")
			if pi.mapEl && op == "/=" { // "/=" yields a float, a map entry needs its exact type
				op = "+="
			}
		case grl.TString:
			op = "+="
		}
	}
	depth := g.R.Intn(g.Prof.MaxDepth)
	var rhs *grl.Expr
	switch pi.t {
	case grl.TInt, grl.TUint, grl.TFloat:
		st := pi.t
		if !pi.mapEl && g.R.Chance(30, 100) {
			st = g.numType() // numeric destinations convert
		}
		if op == "/=" {
			rhs = lit(g.R.PickInt64(2, 4))
		} else {
			rhs = g.Expr(st, depth, pi.mapEl)
			if pi.mapEl && op != "=" {
				// compound on a map entry: int64 op int64 stays int64 only for int operands
				rhs = g.Expr(grl.TInt, depth, true)
			}
		}
	case grl.TTime:
		op = "="
		rhs = grl.PathE(grl.P(g.R.PickStr("F", "G") + ".T"))
	default:
		rhs = g.Expr(pi.t, depth, false)
	}
	dest := g.maybeComputedSel(pi)
	if g.newKeys && pi.mapEl && g.R.Chance(25, 100) {
		if dest.Steps[len(dest.Steps)-1].Sel.LitK == "int" {
			dest.Steps[len(dest.Steps)-1].Sel = lit(9)
		} else {
			dest.Steps[len(dest.Steps)-1].Sel = grl.LitStr("k9")
		}
		if op != "=" {
			op = "="
		}
	}
	return &grl.Action{K: "assign", Path: dest, Op: op, E: rhs}
}

// Program generates a rule set.
func (g *G) Program() *grl.Program {
	g.pool = map[grl.Type][]*grl.Expr{}
	g.usedCounted = map[string]bool{}
	g.newKeys = g.R.Chance(30, 100)
	g.buildPaths()
	n := g.R.Range(1, g.Prof.MaxRules)
	allNames := []string{"R1", "R11", "R2", "Ra", "RA", "R1x", "Rb", "R3"}
	perm := g.R.Perm(len(allNames))
	g.names = nil
	for i := 0; i < n; i++ {
		g.names = append(g.names, allNames[perm[i]])
	}
	sals := []int64{-2147483648, -7, -1, 0, 0, 1, 1, 5, 2147483647}
	p := &grl.Program{}
	for i := 0; i < n; i++ {
		r := &grl.Rule{Name: g.names[i]}
		if g.R.Chance(60, 100) {
			d := fmt.Sprintf("rule %s does things", g.names[i])
			r.Desc = &d
		}
		if g.R.Chance(75, 100) {
			s := sals[g.R.Intn(len(sals))]
			r.Salience = &s
		}
		depth := g.R.Range(1, g.Prof.MaxDepth)
		r.When = g.Expr(grl.TBool, depth, false)
		if g.R.Chance(g.Prof.PNatural, 100) {
			nat := g.natural()
			switch g.R.Intn(3) {
			case 0:
				r.When = nat
			case 1:
				r.When = grl.Bin("&&", r.When, nat)
			default:
				r.When = grl.Bin("||", r.When, nat)
			}
		}
		na := g.R.Range(1, g.Prof.MaxActions)
		for j := 0; j < na; j++ {
			r.Then = append(r.Then, g.action(r))
		}
		if g.R.Chance(g.Prof.PNatural, 100) {
			// a natural action fault somewhere in the list
			at := g.R.Intn(len(r.Then) + 1)
			r.Then = append(r.Then[:at], append([]*grl.Action{g.naturalAction()}, r.Then[at:]...)...)
		}
		if g.R.Chance(g.Prof.PMutator, 100) {
			// documented protocol: a mutator call is announced with Changed/Forget in the same list,
			// has a call text unique in the rule set, and the rule retracts itself (R2, R3)
			f := g.R.PickStr("F", "G")
			g.mutN++
			if g.Prof.MutatorPool > 0 {
				g.mutN = g.R.Intn(g.Prof.MutatorPool) + 1
			}
			switch g.R.Intn(3) {
			case 0:
				r.Then = append(r.Then, &grl.Action{K: "mut", E: &grl.Expr{K: "call", Path: grl.P(f), Fn: "SetI", Args: []*grl.Expr{lit(int64(100 + g.mutN))}}},
					&grl.Action{K: g.R.PickStr("changed", "forget"), Text: f + ".I"})
			case 1:
				r.Then = append(r.Then, &grl.Action{K: "mut", E: &grl.Expr{K: "call", Path: grl.P(f), Fn: "Bump", Args: []*grl.Expr{lit(int64(20 + g.mutN))}}},
					&grl.Action{K: g.R.PickStr("changed", "forget"), Text: f + ".I"})
			default:
				r.Then = append(r.Then, &grl.Action{K: "mut", E: &grl.Expr{K: "call", Path: grl.P(f), Fn: "SetS", Args: []*grl.Expr{grl.LitStr(fmt.Sprintf("m%d", g.mutN))}}},
					&grl.Action{K: g.R.PickStr("changed", "forget"), Text: f + ".S"})
			}
			r.Then = append(r.Then, &grl.Action{K: "retract", Name: r.Name})
		} else if g.R.Chance(g.Prof.PSelfRetract, 100) {
			r.Then = append(r.Then, &grl.Action{K: "retract", Name: r.Name})
		}
		p.Rules = append(p.Rules, r)
	}
	return p
}

func (g *G) destPath() *pathInfo {
	for tries := 0; tries < 20; tries++ {
		t := []grl.Type{grl.TInt, grl.TInt, grl.TInt, grl.TFloat, grl.TString, grl.TString, grl.TBool, grl.TUint, grl.TTime}[g.R.Intn(9)]
		if t == grl.TTime && !g.R.Chance(1, 4) {
			continue
		}
		g.allowWonly = true
		pi := g.pickPath(t, false, true)
		g.allowWonly = false
		if pi == nil {
			continue
		}
		if g.Prof.WriteOtherFact > 0 && pi.fact == "G" && g.R.Chance(g.Prof.WriteOtherFact, 100) {
			continue
		}
		return pi
	}
	return g.pickPath(grl.TInt, false, true)
}

func (g *G) action(r *grl.Rule) *grl.Action {
	x := g.R.Intn(100)
	switch {
	case x < g.Prof.PRetract:
		switch g.R.Intn(4) {
		case 0:
			return &grl.Action{K: "retract", Name: r.Name}
		case 1:
			return &grl.Action{K: "retract", Name: g.R.PickStr("Nobody", "R", "r1", "R111")}
		default:
			return &grl.Action{K: "retract", Name: g.names[g.R.Intn(len(g.names))]}
		}
	case x < g.Prof.PRetract+g.Prof.PComplete:
		return &grl.Action{K: "complete"}
	case x < g.Prof.PRetract+g.Prof.PComplete+3:
		return &grl.Action{K: "log", Text: "note " + r.Name}
	case x < g.Prof.PRetract+g.Prof.PComplete+7 && x >= g.Prof.PRetract+g.Prof.PComplete+5:
		// a side-effect-free call as a statement; its text is up for sharing with conditions and other rules
		t := []grl.Type{grl.TInt, grl.TInt, grl.TFloat, grl.TString, grl.TBool}[g.R.Intn(5)]
		var e *grl.Expr
		if p := g.pool[t]; len(p) > 0 && g.R.Chance(1, 2) {
			for _, c := range p {
				if c.K == "call" {
					e = grl.CloneExpr(c)
					break
				}
			}
		}
		if e == nil {
			e = g.remember(t, g.call(t, 1))
		}
		return &grl.Action{K: "eval", E: e}
	case x < g.Prof.PRetract+g.Prof.PComplete+5:
		// re-point the nested pointer to the spare object (which no rule reads or writes otherwise)
		f := g.R.PickStr("F", "G")
		return &grl.Action{K: "assign", Path: grl.P(f + ".P"), Op: "=", E: grl.PathE(grl.P(f + ".P2"))}
	}
	return g.assign(g.destPath())
}

// ---------------------------------------------------------------------------------------------
// Facts

func (g *G) fact() *grl.Fact {
	r := g.R
	i8 := []int64{0, 1, 2, -1, 127, -128}
	f := &grl.Fact{
		I:   r.PickInt64(0, 1, 2, 3, 5, 10, -1, -4, 1000, 9007199254740993),
		I32: int32(r.PickInt64(0, 1, 2, -1, 2147483647, -2147483648)),
		I8:  int8(i8[r.Intn(len(i8))]),
		D:   time.Duration(r.PickInt64(0, 1, 2, 5, 1000, -3)),
		Mn:  grl.Money(smallFloats[r.Intn(len(smallFloats))]),
		Gr:  grl.Grade(r.PickInt64(0, 1, 2, 200)),
		U64: uint64(r.PickInt64(0, 1, 2, 3, 1000)),
		U16: uint16(r.PickInt64(0, 1, 2, 65535)),
		U8:  uint8(r.PickInt64(0, 1, 2, 255)),
		F:   smallFloats[r.Intn(len(smallFloats))] * float64(r.PickInt64(1, 1, -1, 0)),
		F32: float32(smallFloats[r.Intn(len(smallFloats))]),
		S:   smallStrs[r.Intn(len(smallStrs))],
		S2:  r.PickStr("k1", "k2", "k1", "zz"),
		B:   r.Chance(1, 2),
		T:   time.Date(2024, time.Month(r.Range(1, 3)), r.Range(1, 2), 0, 0, 0, 0, time.UTC),
		A:   []int64{r.PickInt64(smallInts...), r.PickInt64(smallInts...), r.PickInt64(smallInts...)},
		AS:  []string{smallStrs[r.Intn(len(smallStrs))], smallStrs[r.Intn(len(smallStrs))], "z"},
		AF:  []float32{0.5, float32(smallFloats[r.Intn(len(smallFloats))]), 2},
		L: []*grl.Sub{{X: r.PickInt64(smallInts...), Y: smallStrs[r.Intn(len(smallStrs))], Z: smallFloats[r.Intn(len(smallFloats))]},
			{X: r.PickInt64(smallInts...), Y: "l1", Z: 1.25}},
		MP: map[string]*grl.Sub{"k1": {X: r.PickInt64(smallInts...), Y: smallStrs[r.Intn(len(smallStrs))], Z: 0.75}, "k2": {X: r.PickInt64(smallInts...), Y: "m2", Z: 2.5}},
		M:   map[string]int64{"k1": r.PickInt64(smallInts...), "k2": r.PickInt64(smallInts...)},
		MS:  map[string]string{"k1": smallStrs[r.Intn(len(smallStrs))], "k2": "v"},
		MI:  map[int64]int64{1: r.PickInt64(smallInts...), 2: r.PickInt64(smallInts...)},
		AI:  []interface{}{r.PickInt64(smallInts...), smallStrs[r.Intn(len(smallStrs))], smallFloats[r.Intn(len(smallFloats))]},
	}
	if r.Chance(1, 3) {
		f.M["A"] = r.PickInt64(smallInts...) // the key the rune conversion of 65 would hit
	}
	pn := r.PickInt64(smallInts...)
	f.PN = &pn
	if !r.Chance(g.Prof.PNilPtr, 100) {
		f.P2 = &grl.Sub{X: r.PickInt64(smallInts...) + 100, Y: "spare", Z: 8.25, Q: &grl.Leaf{V: r.PickInt64(smallInts...) + 50, W: "spare-leaf"}}
	}
	if !r.Chance(g.Prof.PNilPtr, 100) {
		f.P = &grl.Sub{X: r.PickInt64(smallInts...), Y: smallStrs[r.Intn(len(smallStrs))], Z: smallFloats[r.Intn(len(smallFloats))]}
		if !r.Chance(g.Prof.PNilPtr, 100) {
			f.P.Q = &grl.Leaf{V: r.PickInt64(smallInts...), W: smallStrs[r.Intn(len(smallStrs))]}
		}
	}
	return f
}

// Facts generates a fact state.
func (g *G) Facts() *grl.Facts {
	j := map[string]interface{}{
		"n": smallFloats[g.R.Intn(len(smallFloats))],
		"s": smallStrs[g.R.Intn(len(smallStrs))],
		"b": g.R.Chance(1, 2),
		"o": map[string]interface{}{"k": float64(g.R.PickInt64(smallInts...))},
		"a": []interface{}{float64(g.R.PickInt64(smallInts...)), 2.5, float64(g.R.PickInt64(smallInts...))},
	}
	jb, _ := json.Marshal(j)
	return &grl.Facts{F: g.fact(), G: g.fact(), N: g.R.PickInt64(smallInts...), Z: smallStrs[g.R.Intn(len(smallStrs))], J: jb}
}

// Schedule generates permutations for up to n engine loops over k rules.
func (g *G) Schedule(loops, k int, style int) [][]int {
	var s [][]int
	for i := 0; i < loops; i++ {
		switch style {
		case 0: // sorted order
			return nil
		case 1: // reverse
			p := make([]int, k)
			for j := range p {
				p[j] = k - 1 - j
			}
			s = append(s, p)
		default:
			s = append(s, g.R.Perm(k))
		}
	}
	return s
}

// Scenario generates a complete Sim E scenario.
func Scenario(property string, seed uint64, prof Profile) *core.Scenario {
	r := core.NewRand(seed)
	g := &G{R: r, Prof: prof}
	sc := &core.Scenario{Property: property, Sim: "E", Seed: seed}
	useTemplate := r.Chance(prof.TemplatePct, 100)
	if useTemplate && g.Prof.MaxRules > 3 {
		g.Prof.MaxRules = 3
	}
	sc.Program = g.Program()
	sc.Facts = g.Facts()
	if useTemplate {
		sc.Template = g.applyTemplate(property, sc.Program, sc.Facts)
		// template rules are placed at a random position among the free-form ones
		pm := r.Perm(len(sc.Program.Rules))
		rules := make([]*grl.Rule, len(pm))
		for i, j := range pm {
			rules[i] = sc.Program.Rules[j]
		}
		sc.Program.Rules = rules
	}
	sc.Knobs = core.Knobs{
		MaxCycle:  prof.MaxCycles[r.Intn(len(prof.MaxCycles))],
		RetErr:    r.Chance(prof.RetErrPct, 100),
		Listeners: prof.Listeners[r.Intn(len(prof.Listeners))],
		Source:    prof.Sources[r.Intn(len(prof.Sources))],
		Mode:      prof.Mode,
	}
	if len(sc.Program.Rules) > 1 && r.Chance(30, 100) {
		sc.Knobs.SplitAt = r.Range(1, len(sc.Program.Rules)-1)
	}
	if r.Chance(prof.PRemoved, 100) && len(sc.Program.Rules) > 1 {
		sc.Removed = []string{sc.Program.Rules[r.Intn(len(sc.Program.Rules))].Name}
		sc.Knobs.RemoveOnInstance = core.Mix(seed, 0x4e)%2 == 0 // derived, not drawn
	}
	AnnounceFieldMethods(sc.Program, r)
	// other notations of the same literal (hexadecimal / octal integers, TRUE / True): from a generator of
	// their own, so that the rest of the stream is unchanged
	ra := core.NewRand(core.Mix(seed, 0xa17))
	var alt func(e *grl.Expr)
	alt = func(e *grl.Expr) {
		if e == nil || e.K == "call" {
			return // the text of a fact method call stays as it is: C13 is about calls with IDENTICAL text
		}
		if e.K == "lit" && e.LitK == "string" {
			for i := 0; i < len(e.S); i++ {
				if e.S[i] >= 0x80 {
					if ra.Chance(1, 2) {
						e.Alt = 1 + ra.Intn(2)
					}
					break
				}
			}
		}
		if e.K == "lit" && (e.LitK == "int" || e.LitK == "bool") && ra.Chance(1, 8) {
			e.Alt = 1 + ra.Intn(2)
			if e.LitK == "bool" && ra.Chance(1, 3) {
				e.Alt = 3
			}
		}
		if e.Path != nil {
			for i := range e.Path.Steps {
				alt(e.Path.Steps[i].Sel)
			}
		}
		alt(e.L)
		alt(e.R)
		for _, a := range e.Args {
			alt(a)
		}
	}
	for _, rl := range sc.Program.Rules {
		alt(rl.When)
		for _, a := range rl.Then {
			alt(a.E)
			if a.Path != nil {
				for i := range a.Path.Steps {
					alt(a.Path.Steps[i].Sel)
				}
			}
		}
	}
	sc.Schedule = g.Schedule(int(sc.Knobs.MaxCycle)+2, len(sc.Program.Rules), r.Intn(4))
	sc.LatSeed = r.Uint64()
	sc.GRL = grl.PrintProgram(sc.Program)
	return sc
}

// ScenarioFor generates the scenario of a run of the given property: a directed template about a
// third of the time (when one exists for the property), free-form otherwise.
func ScenarioFor(property string, seed uint64, prof Profile) *core.Scenario {
	return Scenario(property, seed, prof)
}


// AnnounceFieldMethods enforces the documented protocol for methods whose result depends on a
// field: wherever the rule set calls X.Level() / X.Label(), every action that changes X.I / X.S
// (by assignment or through a mutator) is followed, in the same action list, by Forget/Changed
// naming the call text. Without the announcement the engine cannot know (Function_en.md).
func AnnounceFieldMethods(p *grl.Program, r *core.Rand) {
	used := map[string]bool{} // "F.Level()"
	labelOf := map[string][]string{} // fact -> texts of its LabelOf calls
	var walk func(e *grl.Expr)
	walk = func(e *grl.Expr) {
		if e == nil {
			return
		}
		if e.K == "call" && (e.Fn == "Level" || e.Fn == "Label") && len(e.Path.Steps) == 0 {
			used[e.Path.Root+"."+e.Fn+"()"] = true
		}
		if e.K == "call" && e.Fn == "LabelOf" && len(e.Path.Steps) == 0 && len(e.Args) == 1 && e.Args[0].K == "lit" {
			labelOf[e.Path.Root] = append(labelOf[e.Path.Root], grl.PrintExpr(e)) // the exact call text, string literal included
			used[grl.PrintExpr(e)] = true
		}
		if e.Path != nil {
			for _, s := range e.Path.Steps {
				walk(s.Sel)
			}
		}
		walk(e.L)
		walk(e.R)
		for _, a := range e.Args {
			walk(a)
		}
	}
	for _, rl := range p.Rules {
		walk(rl.When)
		for _, a := range rl.Then {
			walk(a.E)
			if a.Path != nil {
				for _, s := range a.Path.Steps {
					walk(s.Sel)
				}
			}
		}
	}
	if len(used) == 0 {
		return
	}
	for _, rl := range p.Rules {
		var out []*grl.Action
		for i, a := range rl.Then {
			out = append(out, a)
			var fact, field string
			switch a.K {
			case "assign":
				if len(a.Path.Steps) == 1 && a.Path.Steps[0].Sel == nil {
					fact, field = a.Path.Root, a.Path.Steps[0].Field
				}
			case "mut":
				fact = a.E.Path.Root
				switch a.E.Fn {
				case "SetI", "Bump":
					field = "I"
				case "SetS":
					field = "S"
				}
			}
			call := ""
			if field == "I" {
				call = fact + ".Level()"
			} else if field == "S" {
				call = fact + ".Label()"
			}
			if call != "" && used[call] {
				if i+1 < len(rl.Then) && (rl.Then[i+1].K == "forget" || rl.Then[i+1].K == "changed") && rl.Then[i+1].Text == call {
					continue // already announced
				}
				k := "forget"
				if r != nil && r.Chance(1, 2) {
					k = "changed"
				}
				out = append(out, &grl.Action{K: k, Text: call})
			}
			if field == "S" {
				seen := map[string]bool{}
				for _, text := range labelOf[fact] {
					if seen[text] {
						continue
					}
					seen[text] = true
					announced := false
					for _, later := range rl.Then[i+1:] {
						if (later.K == "forget" || later.K == "changed") && later.Text == text {
							announced = true
						}
					}
					if !announced {
						out = append(out, &grl.Action{K: "forget", Text: text})
					}
				}
			}
		}
		rl.Then = out
	}
}
