package gen

import (
	"fmt"

	"grulesim/sim/core"
	"grulesim/sim/grl"
)

// Directed templates construct the situation a property is about and are then embellished with
// free-form rules. They use the reference model on the generated facts to know what is currently
// true, so the constructed situation exists by construction instead of by luck.

func sal(v int64) *int64 { return &v }

// valueLit returns a literal expression denoting v (int64/float64/string/bool only).
func valueLit(v interface{}) *grl.Expr {
	switch x := v.(type) {
	case int64:
		if x < 0 {
			return grl.Bin("-", grl.LitInt(0), grl.LitInt(-x))
		}
		return grl.LitInt(x)
	case float64:
		if x < 0 {
			return grl.Bin("-", grl.LitFloat(0), grl.LitFloat(-x))
		}
		return grl.LitFloat(x)
	case string:
		return grl.LitStr(x)
	case bool:
		return grl.LitBool(x)
	}
	return nil
}

// trueNow picks, among a few generated boolean expressions, one that the model finds true (or
// false when want is false) on the given facts; falls back to a literal.
func (g *G) condWith(m *grl.Model, want bool, depth int) *grl.Expr {
	for i := 0; i < 12; i++ {
		e := g.Expr(grl.TBool, depth, false)
		v, err := m.Eval(e)
		if err == nil {
			if b, ok := v.(bool); ok && b == want {
				return e
			}
			if b, ok := v.(bool); ok && b != want {
				return grl.Not(e)
			}
		}
	}
	return grl.LitBool(want)
}

// readerOf builds a boolean condition over path p (type t) whose current truth is `want`, using
// the value v0 the model sees now, in one of several syntactic shapes (plain comparison, shared
// arithmetic sub-expression, right operand of a short-circuit, method argument, negation).
func (g *G) readerOf(m *grl.Model, pi *pathInfo, want bool) *grl.Expr {
	pe := grl.PathE(grl.ClonePath(pi.p))
	v0, err := m.Eval(pe)
	if err != nil {
		return nil
	}
	var core *grl.Expr
	switch pi.t {
	case grl.TInt:
		iv, ok := v0.(int64)
		if !ok {
			iv = int64(grlInt(v0))
		}
		if len(pi.p.Steps) == 1 && pi.p.Steps[0].Field == "I" && (pi.p.Root == "F" || pi.p.Root == "G") && g.R.Chance(1, 3) {
			// read the field through a method whose result depends on it: changes must be announced
			// with Forget/Changed naming the call (added by AnnounceFieldMethods)
			core = grl.Bin(g.R.PickStr("==", "<=", ">="), &grl.Expr{K: "call", Path: grl.P(pi.p.Root), Fn: "Level"}, valueLit(iv))
			break
		}
		switch g.R.Intn(5) {
		case 0:
			core = grl.Bin("==", pe, valueLit(iv))
		case 1:
			core = grl.Bin("<", pe, valueLit(iv+1))
		case 2:
			core = grl.Bin("==", grl.Bin("+", pe, grl.LitInt(2)), valueLit(iv+2))
		case 3:
			if pi.exact {
				core = grl.Bin("==", &grl.Expr{K: "call", Path: grl.P("G"), Fn: "Cost", Args: []*grl.Expr{pe}}, valueLit(grl.CostFn(iv)))
			} else {
				core = grl.Bin(">=", pe, valueLit(iv))
			}
		default:
			core = grl.Bin("==", grl.Bin("*", pe, grl.LitInt(3)), valueLit(iv*3))
		}
	case grl.TString:
		sv, _ := v0.(string)
		if len(pi.p.Steps) == 1 && pi.p.Steps[0].Field == "S" && (pi.p.Root == "F" || pi.p.Root == "G") && g.R.Chance(1, 3) {
			// read the field through a method whose call text carries a string literal with a space in it; the
			// change is announced with Forget naming exactly that text (added by AnnounceFieldMethods)
			pre := g.R.PickStr("x y", "New York", "a")
			core = grl.Bin("==", &grl.Expr{K: "call", Path: grl.P(pi.p.Root), Fn: "LabelOf", Args: []*grl.Expr{grl.LitStr(pre)}}, grl.LitStr(pre+":"+sv))
			break
		}
		switch g.R.Intn(3) {
		case 0:
			core = grl.Bin("==", pe, grl.LitStr(sv))
		case 1:
			core = grl.Bin("==", grl.Bin("+", pe, grl.LitStr("!")), grl.LitStr(sv+"!"))
		default:
			core = grl.Bin("==", &grl.Expr{K: "vfn", L: pe, Fn: "Len"}, grl.LitInt(int64(len(sv))))
		}
	case grl.TBool:
		bv, _ := v0.(bool)
		core = grl.Bin("==", pe, grl.LitBool(bv))
	case grl.TFloat:
		fv := grlFloat(v0)
		core = grl.Bin("==", pe, valueLit(fv))
	default:
		return nil
	}
	if !want {
		core = grl.Not(core)
	}
	// wrap in a short-circuit so that the interesting side is the one evaluated second
	switch g.R.Intn(5) {
	case 0:
		return grl.Bin("||", g.condWith(m, false, 1), core)
	case 1:
		return grl.Bin("&&", g.condWith(m, true, 1), core)
	case 2:
		return grl.Bin("&&", core, g.condWith(m, true, 1))
	}
	return core
}

func grlInt(v interface{}) int64 {
	switch x := v.(type) {
	case int64:
		return x
	case int32:
		return int64(x)
	case int8:
		return int64(x)
	case int:
		return int64(x)
	}
	return 0
}

func grlFloat(v interface{}) float64 {
	switch x := v.(type) {
	case float64:
		return x
	case float32:
		return float64(x)
	}
	return 0
}

// writerOf builds an assignment that changes the value at pi.
func (g *G) writerOf(m *grl.Model, pi *pathInfo) *grl.Action {
	dest := grl.ClonePath(pi.p)
	switch pi.t {
	case grl.TInt:
		if g.R.Chance(1, 2) {
			return &grl.Action{K: "assign", Path: dest, Op: "+=", E: grl.LitInt(g.R.PickInt64(1, 2, 5))}
		}
		v0, _ := m.Eval(grl.PathE(dest))
		return &grl.Action{K: "assign", Path: dest, Op: "=", E: valueLit(grlInt(v0) + g.R.PickInt64(1, 3))}
	case grl.TString:
		return &grl.Action{K: "assign", Path: dest, Op: "+=", E: grl.LitStr("x")}
	case grl.TBool:
		v0, _ := m.Eval(grl.PathE(dest))
		b, _ := v0.(bool)
		return &grl.Action{K: "assign", Path: dest, Op: "=", E: grl.LitBool(!b)}
	case grl.TFloat:
		return &grl.Action{K: "assign", Path: dest, Op: "+=", E: grl.LitFloat(0.5)}
	}
	return nil
}

// flipTemplate: rule A reads p and is currently `aTrue`; rule B writes p so that A flips.
// For aTrue=true this is the C01 situation (A must not fire afterwards on the stale `true`);
// for aTrue=false the C02 situation (A must be seen once B made it true).
func (g *G) flipTemplate(p *grl.Program, facts *grl.Facts, aTrue bool) bool {
	m := &grl.Model{S: grl.NewState(facts)}
	var pi *pathInfo
	if g.R.Chance(1, 6) { // the mutator variant needs the I field of a fact
		for i := range g.paths {
			if grl.PrintPath(g.paths[i].p) == g.R.PickStr("F.I", "G.I") {
				pi = &g.paths[i]
			}
		}
	}
	for tries := 0; tries < 10 && pi == nil; tries++ {
		t := []grl.Type{grl.TInt, grl.TInt, grl.TString, grl.TBool, grl.TFloat}[g.R.Intn(5)]
		c := g.pickPath(t, false, true)
		if c == nil || (c.mapEl && t == grl.TFloat) {
			continue
		}
		if _, err := m.Eval(grl.PathE(c.p)); err != nil {
			continue
		}
		pi = c
	}
	if pi == nil {
		return false
	}
	condA := g.readerOf(m, pi, aTrue)
	wr := g.writerOf(m, pi)
	if condA == nil || wr == nil {
		return false
	}
	nameA, nameB := "Ta", "Tb"
	// A: low salience so that B goes first; A's own action is harmless and A retracts itself.
	a := &grl.Rule{Name: nameA, Salience: sal(g.R.PickInt64(-7, -1, 0)), When: condA,
		Then: []*grl.Action{g.assign(g.destPath()), {K: "retract", Name: nameA}}}
	bCond := g.condWith(m, true, 1)
	b := &grl.Rule{Name: nameB, Salience: sal(g.R.PickInt64(1, 5, 2147483647)), When: bCond,
		Then: []*grl.Action{wr, {K: "retract", Name: nameB}}}
	if g.R.Chance(2, 3) {
		// the write happens through a mutator announced with Changed/Forget
		if pi.p.Root != "N" && len(pi.p.Steps) == 1 && pi.p.Steps[0].Field == "I" {
			v0, _ := m.Eval(grl.PathE(pi.p))
			b.Then = []*grl.Action{
				{K: "mut", E: &grl.Expr{K: "call", Path: grl.P(pi.p.Root), Fn: "SetI", Args: []*grl.Expr{valueLit(grlInt(v0) + 4)}}},
				{K: g.R.PickStr("changed", "forget"), Text: grl.PrintPath(pi.p)},
				{K: "retract", Name: nameB},
			}
		}
	}
	// a third rule sharing A's condition text verbatim (shared node evaluated first by someone else)
	if g.R.Chance(1, 2) {
		c := &grl.Rule{Name: "Tc", Salience: sal(g.R.PickInt64(-1, 0, 1)), When: grl.CloneExpr(condA),
			Then: []*grl.Action{{K: "log", Text: "tc"}, {K: "retract", Name: "Tc"}}}
		p.Rules = append(p.Rules, c)
	}
	p.Rules = append(p.Rules, a, b)
	return true
}

// shareTemplate (C13): one counted call text appears in k rules with varied surroundings.
func (g *G) shareTemplate(p *grl.Program, facts *grl.Facts) bool {
	recv := g.R.PickStr("F", "G")
	var call *grl.Expr
	var ret grl.Type
	switch g.R.Intn(4) {
	case 0:
		call = &grl.Expr{K: "call", Path: grl.P(recv), Fn: "Cost", Args: []*grl.Expr{grl.LitInt(g.R.PickInt64(1, 2, 3))}}
		ret = grl.TInt
	case 1:
		other := "F"
		if recv == "F" {
			other = "G"
		}
		call = &grl.Expr{K: "call", Path: grl.P(recv), Fn: "Cost", Args: []*grl.Expr{grl.PathE(grl.P(other + ".P.X"))}}
		ret = grl.TInt
	case 2:
		call = &grl.Expr{K: "call", Path: grl.P(recv), Fn: "IsBig", Args: []*grl.Expr{grl.PathE(grl.P(recv + ".I"))}}
		ret = grl.TBool
	default:
		call = &grl.Expr{K: "call", Path: grl.P(recv), Fn: "Scale", Args: []*grl.Expr{grl.LitFloat(1.5)}}
		ret = grl.TFloat
	}
	if g.R.Chance(1, 3) {
		// a mutator announced with Changed("X.I") next to a counted call whose text merely CONTAINS "X.I"
		// (X.IsBig(3)): the announcement names a variable of the rule set and must not open a new epoch
		call = &grl.Expr{K: "call", Path: grl.P(recv), Fn: "IsBig", Args: []*grl.Expr{grl.LitInt(g.R.PickInt64(3, 12))}}
		ret = grl.TBool
		g.mutN++
		p.Rules = append(p.Rules,
			&grl.Rule{Name: "Sm", Salience: sal(5), When: grl.Bin(">=", grl.PathE(grl.P(recv+".I")), grl.LitInt(0-1000000)),
				Then: []*grl.Action{{K: "mut", E: &grl.Expr{K: "call", Path: grl.P(recv), Fn: "SetI", Args: []*grl.Expr{grl.LitInt(int64(200 + g.mutN))}}},
					{K: g.R.PickStr("changed", "forget"), Text: recv + ".I"}, {K: "retract", Name: "Sm"}}})
	}
	k := g.R.Range(2, 4)
	for i := 0; i < k; i++ {
		var cond *grl.Expr
		c := grl.CloneExpr(call)
		switch ret {
		case grl.TInt:
			cond = grl.Bin(g.R.PickStr(">", ">=", "!="), grl.Bin("+", c, grl.LitInt(int64(i))), grl.LitInt(g.R.PickInt64(0, 1)))
		case grl.TFloat:
			cond = grl.Bin(">", grl.Bin("+", c, grl.LitFloat(float64(i)+0.5)), grl.LitFloat(0.25))
		default:
			cond = grl.Bin("||", c, grl.LitBool(true))
			if g.R.Chance(1, 2) {
				cond = grl.Bin("||", grl.Not(c), c)
			}
		}
		name := fmt.Sprintf("S%d", i)
		r := &grl.Rule{Name: name, Salience: sal(int64(g.R.Intn(3))), When: cond}
		na := g.R.Range(1, 2)
		for j := 0; j < na; j++ {
			r.Then = append(r.Then, g.assign(g.destPath()))
		}
		r.Then = append(r.Then, &grl.Action{K: "retract", Name: name})
		p.Rules = append(p.Rules, r)
	}
	return true
}

// tieTemplate (C03): several rules true at once with equal and extreme saliences.
func (g *G) tieTemplate(p *grl.Program, facts *grl.Facts) bool {
	m := &grl.Model{S: grl.NewState(facts)}
	if g.R.Chance(1, 4) {
		// one or two satisfied rules that all carry the same extreme salience (alone in their cycle)
		s := g.R.PickInt64(-2147483648, -2147483648, 2147483647, -1)
		for i := 0; i < g.R.Range(1, 2); i++ {
			name := fmt.Sprintf("X%d", i)
			p.Rules = append(p.Rules, &grl.Rule{Name: name, Salience: sal(s), When: g.condWith(m, true, 1),
				Then: []*grl.Action{g.assign(g.destPath()), {K: "retract", Name: name}}})
		}
		return true
	}
	k := g.R.Range(3, 5)
	sals := []int64{g.R.PickInt64(-2147483648, -7, 0, 5, 2147483647)}
	sals = append(sals, sals[0], g.R.PickInt64(-2147483648, -7, -1, 0, 1, 2147483647))
	for i := 0; i < k; i++ {
		name := fmt.Sprintf("Q%d", i)
		s := sals[g.R.Intn(len(sals))]
		r := &grl.Rule{Name: name, When: g.condWith(m, true, g.R.Range(0, 2)),
			Then: []*grl.Action{g.assign(g.destPath()), {K: "retract", Name: name}}}
		if s != 0 || g.R.Chance(1, 2) {
			r.Salience = sal(s)
		}
		p.Rules = append(p.Rules, r)
	}
	return true
}

// retractTemplate (C10): a high-salience rule retracts another current candidate / completes mid-list.
func (g *G) retractTemplate(p *grl.Program, facts *grl.Facts) bool {
	m := &grl.Model{S: grl.NewState(facts)}
	victim := &grl.Rule{Name: "V1", Salience: sal(0), When: g.condWith(m, true, 1),
		Then: []*grl.Action{g.assign(g.destPath())}}
	bystander := &grl.Rule{Name: "V11", Salience: sal(0), When: g.condWith(m, true, 1),
		Then: []*grl.Action{g.assign(g.destPath()), {K: "retract", Name: "V11"}}}
	killer := &grl.Rule{Name: "K1", Salience: sal(5), When: g.condWith(m, true, 1)}
	switch g.R.Intn(4) {
	case 0:
		killer.Then = []*grl.Action{{K: "retract", Name: "V1"}, {K: "retract", Name: "K1"}}
	case 1:
		killer.Then = []*grl.Action{{K: "retract", Name: "V1"}, {K: "retract", Name: "Nobody"}, {K: "retract", Name: "v1"}, {K: "retract", Name: "K1"}}
	case 2:
		killer.Then = []*grl.Action{g.assign(g.destPath()), {K: "complete"}, g.assign(g.destPath()), {K: "retract", Name: "V1"}}
	default:
		killer.Then = []*grl.Action{{K: "retract", Name: "V1"}, {K: "retract", Name: "V11"}, g.assign(g.destPath()), {K: "retract", Name: "K1"}}
	}
	p.Rules = append(p.Rules, victim, bystander, killer)
	return true
}

// naturalAction returns an action that fails on most fact states (C14 natural action faults).
func (g *G) naturalAction() *grl.Action {
	switch g.R.Intn(13) {
	case 12: // a JSON object takes string keys only
		if g.R.Chance(1, 2) {
			return &grl.Action{K: "assign", Path: grl.P("J").Idx(grl.PathE(grl.P("F.I"))), Op: "=", E: grl.LitInt(95)}
		}
		return &grl.Action{K: "assign", Path: grl.P("J.o").Idx(grl.LitFloat(2.5)), Op: "=", E: grl.LitInt(94)}
	case 10: // map keys of the wrong kind
		switch g.R.Intn(3) {
		case 0:
			return &grl.Action{K: "assign", Path: grl.P("F.M").Idx(grl.LitInt(65)), Op: "=", E: grl.LitInt(97)}
		case 1:
			return &grl.Action{K: "assign", Path: grl.P("F.MI").Idx(grl.LitFloat(g.R.PickStr2F(1.0, 2.75, 1.5))), Op: "=", E: grl.LitInt(96)}
		default:
			return &grl.Action{K: "assign", Path: grl.P("G.MI").Idx(grl.LitStr("2")), Op: "+=", E: grl.LitInt(1)}
		}
	case 11:
		return &grl.Action{K: "eval", E: &grl.Expr{K: "call", Path: grl.P("F"), Fn: "Cost", Args: []*grl.Expr{grl.PathE(grl.P("F.M").Idx(grl.LitStr("nokey")))}}} // a bare call whose argument fails
	case 8:
		return &grl.Action{K: "assign", Path: grl.P("F.A").Idx(grl.PathE(grl.P("F.S2"))), Op: "=", E: grl.LitInt(99)} // string selector on a slice
	case 9:
		return &grl.Action{K: "assign", Path: grl.P("F.A").Idx(grl.LitStr("first")), Op: "=", E: grl.LitInt(98)}
	case 6:
		return &grl.Action{K: "assign", Path: grl.P("F.I"), Op: "=", E: &grl.Expr{K: "call", Path: grl.P("G"), Fn: "Boom", Args: []*grl.Expr{grl.LitInt(3)}}}
	case 7:
		return &grl.Action{K: "assign", Path: grl.P("F.I"), Op: "+=", E: &grl.Expr{K: "call", Path: grl.P("G"), Fn: "BoomErr", Args: []*grl.Expr{grl.LitInt(4)}}}
	case 0:
		return &grl.Action{K: "assign", Path: grl.P("F.A").Idx(grl.LitInt(g.R.PickInt64(3, 9))), Op: "=", E: grl.LitInt(1)}
	case 1:
		return &grl.Action{K: "assign", Path: grl.P("F.S"), Op: "=", E: grl.LitInt(5)} // string <- int
	case 2:
		return &grl.Action{K: "assign", Path: grl.P("F.M").Idx(grl.LitStr("k1")), Op: "=", E: grl.PathE(grl.P("F.I8"))} // map entry needs int64
	case 3:
		return &grl.Action{K: "assign", Path: grl.P("F.I"), Op: "=", E: grl.Bin("%", grl.LitInt(5), grl.Bin("-", grl.PathE(grl.P("G.I8")), grl.PathE(grl.P("G.I8"))))}
	case 4:
		return &grl.Action{K: "assign", Path: grl.P("Nowhere.X"), Op: "=", E: grl.LitInt(1)}
	default:
		return &grl.Action{K: "assign", Path: grl.P("F.I"), Op: "=", E: grl.PathE(grl.P("F.M").Idx(grl.LitStr("nokey")))}
	}
}

// applyTemplate adds a directed template for the property to the program (after free-form
// generation). It reports the template's name or "".
func (g *G) applyTemplate(property string, p *grl.Program, facts *grl.Facts) string {
	switch property {
	case "C01":
		if g.R.Chance(1, 8) && g.nanTemplate(p, facts) {
			return "nan"
		}
		if g.R.Chance(1, 8) && g.jsonKeyTemplate(p, facts) {
			return "json-key"
		}
		if g.R.Chance(1, 4) && g.selectorTemplate(p, facts) {
			return "selector"
		}
		if g.flipTemplate(p, facts, g.R.Chance(3, 4)) {
			return "flip"
		}
	case "C02":
		if g.R.Chance(1, 10) && g.nanTemplate(p, facts) {
			return "nan"
		}
		if g.R.Chance(1, 8) && g.jsonKeyTemplate(p, facts) {
			return "json-key"
		}
		if g.R.Chance(1, 4) && g.selectorTemplate(p, facts) {
			return "selector"
		}
		if g.flipTemplate(p, facts, g.R.Chance(1, 4)) {
			return "flip"
		}
	case "C04":
		if g.R.Chance(1, 4) && g.movingIndexTemplate(p, facts) {
			return "moving-index"
		}
		if g.R.Chance(1, 2) {
			g.convTemplate(p)
			return "conversions"
		}
		if g.flipTemplate(p, facts, g.R.Chance(1, 2)) {
			return "flip"
		}
	case "C06", "C08":
		if g.R.Chance(1, 2) && g.flipTemplate(p, facts, g.R.Chance(1, 2)) {
			return "flip"
		}
	case "C13":
		if g.shareTemplate(p, facts) {
			return "share"
		}
	case "C03":
		if g.tieTemplate(p, facts) {
			return "tie"
		}
	case "C10":
		if g.retractTemplate(p, facts) {
			return "retract"
		}
	case "C14", "C15":
		switch g.R.Intn(5) {
		case 4:
			if property == "C14" && g.breakTemplate(p, facts) {
				return "break"
			}
		case 3:
			if property == "C14" && g.repairTemplate(p, facts) {
				return "repair"
			}
		case 0:
			if g.flipTemplate(p, facts, g.R.Chance(1, 2)) {
				return "flip"
			}
		case 1:
			if g.tieTemplate(p, facts) {
				return "tie"
			}
		}
	}
	return ""
}

var _ = core.Mix

// breakTemplate (C14): the opposite of repair. A condition `L op R` whose LEFT operand evaluates fine at first
// and fails after another rule's action (an index moved out of range, a key that no longer exists), while the
// RIGHT operand alone would decide the outcome (true for ||, false for &&) and is still remembered. The
// condition as a whole fails to evaluate: the rule is not a candidate, or the error is returned.
func (g *G) breakTemplate(p *grl.Program, facts *grl.Facts) bool {
	if facts.F == nil || facts.G == nil {
		return false
	}
	f := g.R.PickStr("F", "G")
	var left *grl.Expr
	var breaker *grl.Action
	if g.R.Chance(1, 2) {
		// slice index: in range now, out of range after the breaker fired
		if f == "F" {
			facts.F.I8 = int8(g.R.Intn(3))
		} else {
			facts.G.I8 = int8(g.R.Intn(3))
		}
		left = grl.Bin(">=", grl.PathE(grl.P(f+".A").Idx(grl.PathE(grl.P(f+".I8")))), grl.LitInt(-1000))
		breaker = &grl.Action{K: "assign", Path: grl.P(f + ".I8"), Op: "=", E: grl.LitInt(g.R.PickInt64(3, 9, -1))}
	} else {
		// map key: present now, absent after the breaker fired
		if f == "F" {
			facts.F.S2 = "k1"
		} else {
			facts.G.S2 = "k1"
		}
		left = grl.Bin(">=", grl.PathE(grl.P(f+".M").Idx(grl.PathE(grl.P(f+".S2")))), grl.LitInt(-1000))
		breaker = &grl.Action{K: "assign", Path: grl.P(f + ".S2"), Op: "=", E: grl.LitStr("gone")}
	}
	op := g.R.PickStr("||", "&&")
	right := grl.Bin("==", grl.PathE(grl.P(f+".B")), grl.LitBool(true))
	if f == "F" {
		facts.F.B = op == "||"
	} else {
		facts.G.B = op == "||"
	}
	if op == "&&" {
		// the rule is not satisfied anyway; what must happen is the error under ReturnErrOnFailedRuleEvaluation
		right = grl.Bin("==", grl.PathE(grl.P(f+".B")), grl.LitBool(true))
	}
	p.Rules = append(p.Rules,
		&grl.Rule{Name: "Bk", Salience: sal(9), When: grl.LitBool(true), Then: []*grl.Action{breaker, {K: "retract", Name: "Bk"}}},
		&grl.Rule{Name: "Vc", Salience: sal(int64(g.R.Intn(3))), When: grl.Bin(op, left, right),
			Then: []*grl.Action{{K: "assign", Path: grl.P(f + ".AS").Idx(grl.LitInt(2)), Op: "+=", E: grl.LitStr("vc")}, {K: "retract", Name: "Vc"}}})
	return true
}

// jsonKeyTemplate: a JSON member is read through a COMPUTED key (J[G.S2] with G.S2 == "n") and written by
// its name (J.n += 1) or through a literal selector: one place, reached by a key the text does not show.
func (g *G) jsonKeyTemplate(p *grl.Program, facts *grl.Facts) bool {
	if facts.G == nil || len(facts.J) == 0 {
		return false
	}
	for _, o := range facts.Omit {
		if o == "J" || o == "G" {
			return false
		}
	}
	facts.G.S2 = "n"
	m := &grl.Model{S: grl.NewState(facts)}
	v0, err := m.Eval(grl.PathE(grl.P("J.n")))
	if err != nil {
		return false
	}
	n0 := grlFloat(v0)
	read := grl.PathE(grl.P("J").Idx(grl.PathE(grl.P("G.S2"))))
	var dest *grl.Path
	if g.R.Chance(2, 3) {
		dest = grl.P("J.n")
	} else {
		dest = grl.P("J").Idx(grl.LitStr("n"))
	}
	if g.R.Chance(1, 2) {
		// counts up while below a bound: stops when the written member crosses it (C01)
		p.Rules = append(p.Rules, &grl.Rule{Name: "Jk", Salience: sal(int64(g.R.Intn(3))), When: grl.Bin("<", read, valueLit(n0+2)),
			Then: []*grl.Action{{K: "assign", Path: dest, Op: "+=", E: grl.LitInt(1)}}})
	} else {
		// another rule makes it true (C02)
		p.Rules = append(p.Rules,
			&grl.Rule{Name: "Jw", Salience: sal(5), When: grl.LitBool(true), Then: []*grl.Action{{K: "assign", Path: dest, Op: "=", E: valueLit(n0 + 10)}, {K: "retract", Name: "Jw"}}},
			&grl.Rule{Name: "Jk", Salience: sal(1), When: grl.Bin(">", read, valueLit(n0+5)),
				Then: []*grl.Action{{K: "assign", Path: grl.P("F.AS").Idx(grl.LitInt(1)), Op: "+=", E: grl.LitStr("jk")}, {K: "retract", Name: "Jk"}}})
	}
	return true
}

// nanTemplate: `/` is the real quotient, so 0/0 is NaN and x/0 is an infinity - legal values on which
// every ordered comparison with NaN is false and only `!=` is true. Rules compare such a quotient in all
// six ways; one stores it into a float field that another rule then reads.
func (g *G) nanTemplate(p *grl.Program, facts *grl.Facts) bool {
	if facts.F == nil || facts.G == nil {
		return false
	}
	facts.G.I32 = 0
	facts.F.I32 = int32(g.R.PickInt64(0, 0, 0, 3, -2))
	q := func() *grl.Expr { return grl.Bin("/", grl.PathE(grl.P("F.I32")), grl.PathE(grl.P("G.I32"))) }
	ops := []string{"<=", ">=", "<", ">", "==", "!="}
	perm := g.R.Perm(len(ops))
	n := g.R.Range(2, 4)
	for i := 0; i < n; i++ {
		op := ops[perm[i]]
		name := "Nq" + string(rune('a'+i))
		var rhs *grl.Expr = grl.LitInt(g.R.PickInt64(1, 0, -1000, 1000))
		if g.R.Chance(1, 4) {
			rhs = q()
		}
		cond := grl.Bin(op, q(), rhs)
		if g.R.Chance(1, 4) {
			cond = grl.Bin(op, rhs, q())
		}
		p.Rules = append(p.Rules, &grl.Rule{Name: name, Salience: sal(int64(g.R.Intn(3))), When: cond,
			Then: []*grl.Action{{K: "assign", Path: grl.P("F.AS").Idx(grl.LitInt(int64(i % 3))), Op: "+=", E: grl.LitStr(op)}, {K: "retract", Name: name}}})
	}
	if g.R.Chance(1, 2) {
		// the quotient travels through a field
		p.Rules = append(p.Rules,
			&grl.Rule{Name: "Nst", Salience: sal(9), When: grl.LitBool(true), Then: []*grl.Action{{K: "assign", Path: grl.P("G.F"), Op: "=", E: q()}, {K: "retract", Name: "Nst"}}},
			&grl.Rule{Name: "Nrd", Salience: sal(1), When: grl.Bin(g.R.PickStr("<=", ">=", "=="), grl.PathE(grl.P("G.F")), grl.LitInt(1)),
				Then: []*grl.Action{{K: "assign", Path: grl.P("F.AS").Idx(grl.LitInt(2)), Op: "+=", E: grl.LitStr("rd")}, {K: "retract", Name: "Nrd"}}})
	}
	return true
}


// convTemplate (C04): one rule whose action list walks through numeric conversions between kinds
// and widths with boundary-rich values (all within the destination's range), on Go facts and JSON.
func (g *G) convTemplate(p *grl.Program) {
	f := g.R.PickStr("F", "G")
	o := "G"
	if f == "G" {
		o = "F"
	}
	type cell struct {
		dst string
		src *grl.Expr
	}
	big := grl.LitInt(g.R.PickInt64(4294967296, 9007199254740993, 1099511627776))
	cells := []cell{
		{f + ".U64", grl.Bin("+", grl.PathE(grl.P(o+".U16")), big)},                // uint + int -> int64 -> uint64
		{f + ".I", grl.Bin("+", grl.PathE(grl.P(o+".U64")), big)},                  // stays exact above 2^53
		{f + ".U64", grl.Bin("*", grl.LitFloat(g.R.PickStr2F(2.5, 1024.0, 3000000000.0)), grl.LitInt(4))},
		{f + ".U16", grl.Bin("+", grl.LitFloat(0.75), grl.LitInt(g.R.PickInt64(1, 300, 65534)))}, // float -> narrow uint, truncation
		{f + ".U8", grl.Bin("/", grl.LitInt(g.R.PickInt64(7, 255, 510)), grl.LitInt(2))},
		{f + ".I8", grl.Bin("-", grl.LitFloat(0.5), grl.LitInt(g.R.PickInt64(1, 100, 128)))},     // negative float -> int8 (toward zero)
		{f + ".I32", grl.PathE(grl.P(o + ".U16"))},
		{f + ".D", grl.PathE(grl.P(o + ".I"))},                                          // int64 -> named int64: same kind, other type
		{f + ".Mn", grl.PathE(grl.P(o + ".F"))},                                         // float64 -> named float64
		{f + ".Gr", grl.PathE(grl.P(o + ".U8"))},                                        // uint8 -> named uint8
		{f + ".I", grl.PathE(grl.P(o + ".D"))},
		{f + ".F32", grl.Bin("+", grl.PathE(grl.P(o+".I8")), grl.LitFloat(0.25))},
		{f + ".F", grl.PathE(grl.P(o + ".U64"))},
		{f + ".P.X", grl.PathE(grl.P(o + ".F"))},
		{f + ".P.Z", grl.PathE(grl.P(o + ".I32"))},
	}
	r := &grl.Rule{Name: "Cv", Salience: sal(int64(g.R.Intn(3))), When: grl.LitBool(true)}
	n := g.R.Range(3, 5)
	for _, i := range g.R.Perm(len(cells))[:n] {
		op := "="
		if g.R.Chance(1, 4) {
			op = g.R.PickStr("+=", "-=", "*=")
		}
		r.Then = append(r.Then, &grl.Action{K: "assign", Path: grl.P(cells[i].dst), Op: op, E: cells[i].src})
	}
	// slice elements and JSON take part too
	r.Then = append(r.Then,
		&grl.Action{K: "assign", Path: grl.P(f + ".A").Idx(grl.LitInt(int64(g.R.Intn(3)))), Op: "=", E: grl.Bin("*", grl.PathE(grl.P(o+".F32")), grl.LitInt(4))},
		&grl.Action{K: "assign", Path: grl.P(f + ".AF").Idx(grl.LitInt(int64(g.R.Intn(3)))), Op: g.R.PickStr("=", "+="), E: grl.PathE(grl.P(o + ".I8"))},
		&grl.Action{K: "assign", Path: grl.P("J.n"), Op: g.R.PickStr("=", "+=", "*="), E: grl.PathE(grl.P(o + ".U8"))},
		&grl.Action{K: "retract", Name: "Cv"})
	p.Rules = append(p.Rules, r)
}


// selectorTemplate: a condition reads a slice through a COMPUTED selector whose index expression
// text also occurs elsewhere in the rule set (second selector on another slice, or a plain operand),
// and another rule assigns the variable inside the index expression. The shared index expression is
// one node in the library and must stay one (known to the working memory) node in every instance.
func (g *G) selectorTemplate(p *grl.Program, facts *grl.Facts) bool {
	m := &grl.Model{S: grl.NewState(facts)}
	f := g.R.PickStr("F", "G")
	ivar := g.R.PickStr(f+".I8", f+".P.X", "N")
	v, err := m.Eval(grl.PathE(grl.P(ivar)))
	if err != nil {
		return false
	}
	cur := grlInt(v)
	// index expression  (ivar - cur)  evaluates to 0 now and to 1 after the writer ran
	idx := func() *grl.Expr { return grl.Bin("-", grl.PathE(grl.P(ivar)), valueLit(cur)) }
	a0, err0 := m.Eval(grl.PathE(grl.P(f + ".A").Idx(grl.LitInt(0))))
	a1, err1 := m.Eval(grl.PathE(grl.P(f + ".A").Idx(grl.LitInt(1))))
	if err0 != nil || err1 != nil {
		return false
	}
	x0, x1 := grlInt(a0), grlInt(a1)
	if x0 == x1 {
		// make the two elements differ so that the index matters
		p.Rules = append(p.Rules, &grl.Rule{Name: "Sz", Salience: sal(2147483647), When: grl.LitBool(true),
			Then: []*grl.Action{{K: "assign", Path: grl.P(f + ".A").Idx(grl.LitInt(1)), Op: "=", E: valueLit(x0 + 7)}, {K: "retract", Name: "Sz"}}})
		x1 = x0 + 7
	}
	aTrue := g.R.Chance(1, 2)
	want := x0
	if !aTrue {
		want = x1
	}
	reader := grl.Bin("==", grl.PathE(grl.P(f+".A").Idx(idx())), valueLit(want))
	// the same index expression text elsewhere
	var other *grl.Expr
	switch g.R.Intn(3) {
	case 0:
		other = grl.Bin("!=", grl.PathE(grl.P(f+".AS").Idx(idx())), grl.LitStr("never-this"))
	case 1:
		other = grl.Bin(">=", idx(), grl.LitInt(0))
	default:
		other = grl.Bin(">=", grl.PathE(grl.P(f+".AF").Idx(idx())), grl.LitFloat(0-1000.5))
	}
	ra := &grl.Rule{Name: "Sa", Salience: sal(g.R.PickInt64(-7, -1, 0)), When: grl.Bin("&&", other, reader),
		Then: []*grl.Action{g.assign(g.destPath()), {K: "retract", Name: "Sa"}}}
	if g.R.Chance(1, 2) {
		ra.When = reader
		p.Rules = append(p.Rules, &grl.Rule{Name: "So", Salience: sal(g.R.PickInt64(-1, 0, 1)), When: other,
			Then: []*grl.Action{{K: "log", Text: "so"}, {K: "retract", Name: "So"}}})
	}
	rb := &grl.Rule{Name: "Sb", Salience: sal(g.R.PickInt64(1, 5)), When: g.condWith(m, true, 1),
		Then: []*grl.Action{{K: "assign", Path: grl.P(ivar), Op: g.R.PickStr("=", "+="), E: nil}, {K: "retract", Name: "Sb"}}}
	if rb.Then[0].Op == "=" {
		rb.Then[0].E = valueLit(cur + 1)
	} else {
		rb.Then[0].E = grl.LitInt(1)
	}
	p.Rules = append(p.Rules, ra, rb)
	return true
}


// repairTemplate (C14): rule A's condition cannot be evaluated at first (missing map key, nil
// nested pointer); rule B repairs the facts; from the next cycle on A must be judged like any rule.
func (g *G) repairTemplate(p *grl.Program, facts *grl.Facts) bool {
	f := g.R.PickStr("F", "G")
	var broken *grl.Expr
	var repair *grl.Action
	switch g.R.Intn(3) {
	case 0:
		key := "kx"
		broken = grl.Bin(">=", grl.PathE(grl.P(f+".M").Idx(grl.LitStr(key))), grl.LitInt(0))
		repair = &grl.Action{K: "assign", Path: grl.P(f + ".M").Idx(grl.LitStr(key)), Op: "=", E: grl.LitInt(g.R.PickInt64(0, 5))}
	case 1:
		if g.R.Chance(1, 2) {
			facts.F.P, facts.G.P = nil, nil
		}
		broken = grl.Bin(">=", grl.PathE(grl.P(f+".P.X")), grl.LitInt(0-1000))
		repair = &grl.Action{K: "assign", Path: grl.P(f + ".P"), Op: "=", E: grl.PathE(grl.P(f + ".P2"))}
	default:
		key := "ky"
		broken = grl.Bin("!=", grl.PathE(grl.P(f+".MS").Idx(grl.LitStr(key))), grl.LitStr("never"))
		repair = &grl.Action{K: "assign", Path: grl.P(f + ".MS").Idx(grl.LitStr(key)), Op: "=", E: grl.LitStr("now")}
	}
	ra := &grl.Rule{Name: "Pa", Salience: sal(g.R.PickInt64(-1, 0, 1)), When: broken,
		Then: []*grl.Action{g.assign(g.destPath()), {K: "retract", Name: "Pa"}}}
	rb := &grl.Rule{Name: "Pb", Salience: sal(g.R.PickInt64(0, 1, 5)), When: grl.LitBool(true),
		Then: []*grl.Action{repair, {K: "retract", Name: "Pb"}}}
	p.Rules = append(p.Rules, ra, rb)
	return true
}


// movingIndexTemplate (C04): the destination's selector (or key) is computed from a variable that
// the PREVIOUS statement of the same action list changed, and was already resolved earlier in the
// run (the condition reads the same element).
func (g *G) movingIndexTemplate(p *grl.Program, facts *grl.Facts) bool {
	m := &grl.Model{S: grl.NewState(facts)}
	f := g.R.PickStr("F", "G")
	useMap := g.R.Chance(1, 3)
	r := &grl.Rule{Name: "Mi", Salience: sal(int64(g.R.Intn(3)))}
	if useMap {
		// key variable S2 moves from k1 to k2
		key := grl.P(f + ".S2")
		dest := grl.P(f + ".M").Idx(grl.PathE(key))
		r.When = grl.Bin("||", grl.Bin(">=", grl.PathE(grl.ClonePath(dest)), grl.LitInt(0-100000)), grl.LitBool(true))
		r.Then = []*grl.Action{
			{K: "assign", Path: grl.ClonePath(key), Op: "=", E: grl.LitStr("k1")},
			{K: "assign", Path: grl.ClonePath(dest), Op: "=", E: grl.LitInt(71)},
			{K: "assign", Path: grl.ClonePath(key), Op: "=", E: grl.LitStr("k2")},
			{K: "assign", Path: grl.ClonePath(dest), Op: g.R.PickStr("=", "+="), E: grl.LitInt(72)},
			{K: "retract", Name: "Mi"},
		}
	} else {
		ivar := g.R.PickStr(f+".I8", f+".P.X", "N")
		if _, err := m.Eval(grl.PathE(grl.P(ivar))); err != nil {
			return false
		}
		arr := g.R.PickStr(".A", ".AS", ".AF")
		idx := func() *grl.Expr {
			if g.R.Chance(1, 2) {
				return grl.PathE(grl.P(ivar))
			}
			return grl.Bin("+", grl.PathE(grl.P(ivar)), grl.LitInt(0))
		}
		ix := idx()
		dest := grl.P(f + arr).Idx(ix)
		var v1, v2 *grl.Expr
		switch arr {
		case ".A":
			v1, v2 = grl.LitInt(71), grl.LitInt(72)
		case ".AS":
			v1, v2 = grl.LitStr("one"), grl.LitStr("two")
		default:
			v1, v2 = grl.LitFloat(7.25), grl.LitFloat(8.5)
		}
		r.When = grl.Bin("||", grl.Bin("!=", grl.PathE(grl.ClonePath(dest)), v1), grl.LitBool(true))
		r.Then = []*grl.Action{
			{K: "assign", Path: grl.P(ivar), Op: "=", E: grl.LitInt(0)},
			{K: "assign", Path: grl.ClonePath(dest), Op: "=", E: v1},
			{K: "assign", Path: grl.P(ivar), Op: g.R.PickStr("=", "+="), E: grl.LitInt(1)},
			{K: "assign", Path: grl.ClonePath(dest), Op: "=", E: v2},
			{K: "assign", Path: grl.P(ivar), Op: "+=", E: grl.LitInt(1)},
			{K: "assign", Path: grl.ClonePath(dest), Op: "=", E: grl.CloneExpr(v1)},
			{K: "retract", Name: "Mi"},
		}
	}
	p.Rules = append(p.Rules, r)
	return true
}
