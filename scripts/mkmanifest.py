#!/usr/bin/env python3
"""Regenerates /verif/MANIFEST.json from the table below (kept in one place so it stays consistent)."""
import json, os, subprocess
V = os.path.dirname(os.path.dirname(os.path.abspath(__file__)))

def hook_commits():
    try:
        out = subprocess.check_output(["git", "-C", "/repo", "log", "--format=%H %s"], text=True)
        return [l.split()[0] for l in out.splitlines() if l.split(" ", 1)[1].startswith("verif:")]
    except Exception:
        return []

SIM_E_NOTE = ("Trusted base: the hand-written memory-free reference model (sim/grl/model.go) and the generator's contract R1-R5 "
              "(DESIGN.md 4.3); the event-recording wrappers around IDataContext/ValueNode; the verif-tagged order/id hooks. "
              "Sampling of programs, facts and schedules: a clean batch is evidence, not proof.")

CHECKS = {
 "C01": ("exploration", "6.C01", "Seeded search over rule sets x facts x per-cycle rule-evaluation orders; at every firing the engine's choice is checked against the memory-free model (rule active, condition true on the current facts).", SIM_E_NOTE, "deterministic simulation: seeded schedule search + refinement against a reference model"),
 "C02": ("exploration", "6.C02", "Same simulation; every model-true active rule must be reported candidate in every cycle, and a nil return without Complete must be at model quiescence.", SIM_E_NOTE, "deterministic simulation: seeded schedule search + refinement against a reference model"),
 "C03": ("exploration", "6.C03", "Same simulation with salience swarm (ties, negatives, int32 limits): at most one firing per cycle, of maximal salience in the model conflict set; no write event outside a firing.", SIM_E_NOTE, "deterministic simulation: seeded schedule search + refinement against a reference model"),
 "C04": ("exploration", "6.C04", "After every firing the complete caller-visible fact graph (Go structs, slices, maps, JSON document, top-level entries) is compared with the model's.", SIM_E_NOTE, "deterministic simulation: seeded schedule search + fact-graph equality with a reference model"),
 "C06": ("exploration", "6.C06", "Listener-protocol automaton, cycle budget and return value against the model, for MaxCycle 0..12 and 0-3 listeners; step-bounded liveness (no wall clock).", SIM_E_NOTE, "deterministic simulation: protocol automaton + bounded liveness over seeded schedules"),
 "C10": ("exploration", "6.C10", "Retract/Complete calls are observed at the wrapped built-in node; the model's retract set and completion flag are compared event by event.", SIM_E_NOTE, "deterministic simulation: seeded schedule search + refinement against a reference model"),
 "C11": ("exploration", "6.C11", "FetchMatchingRules under controlled evaluation orders: exact set vs. model, salience order, zero write events, facts unchanged, error iff flag set and a condition errors.", SIM_E_NOTE, "deterministic simulation: seeded schedule search + reference model"),
 "C13": ("exploration", "6.C13", "Call-counting fact methods with unique call text; invocations per invalidation epoch (computed permissively from the validated trace) must be <= 1.", SIM_E_NOTE + " Counted accessor reads are not covered, only counted method calls.", "deterministic simulation: call counting against model-derived invalidation epochs"),
 "C14": ("fault_enumeration", "6.C14", "Per scenario every eligible seam event of the clean run is failed once (error value, panic, nil fact), plus natural faults and sampled multi-fault sequences; containment, naming, partial effects and later cycles are checked against the model.", SIM_E_NOTE, "deterministic simulation with fault injection: per-scenario enumeration of fault positions"),
 "C15": ("fault_enumeration", "6.C15", "Per scenario the context is cancelled inside every seam event of the clean run, before the call, and by simulated-clock deadlines; no action event may belong to a firing started after the cancellation event.", SIM_E_NOTE, "deterministic simulation with fault injection: per-scenario enumeration of cancellation points"),
}

CHECKS["C12"] = ("fault_enumeration", "6.C12", "Per generated rule set: store through a simulated disk, load, re-store, re-load with metadata and behavioural (Sim E trace) comparison; every write-call index failed once in sticky and transient mode; truncation at every write boundary plus seeded interior offsets (thorough: every byte); chunking readers; failing read calls; overwrite flag.",
 "Trusted base: the simulated writer/reader, Sim E as behavioural comparator (3 fact sets per rule set), the catalog write-order hook. Rule sets are sampled; the fault positions are enumerated per rule set.", "deterministic simulation with fault injection: simulated disk, per-scenario enumeration of write failures and truncation offsets")

CHECKS["C09"] = ("exploration", "6.C09", "2-4 tasks create instances from one library and execute them on their own facts; a seeded cooperative scheduler decides the interleaving at every yield point (node-id draws inside Clone, hooked loops, seam events). Oracles: instance behaves like the library's own knowledge base; per-task result independent of task order and of interleaving; reflection over the pointer graph shows no shared mutable node; blueprint structurally unchanged. Every fourth run index additionally runs a library history (builds accepted and rejected, removals, stores, loads) after every operation of which every knowledge base must be instantiable.",
 "Trusted base: the cooperative scheduler (real goroutines released one at a time), the reflection walker's list of mutable node types, Sim E as behavioural comparator. Interleaving granularity is seam/hook points, not instructions; data races that never change a value are outside the simulation and are what the auxiliary arm (same task scripts on real goroutines in a -race binary, 2 000 scenarios quick / 20 000 thorough) is for.", "deterministic simulation: seeded interleaving search over cooperative tasks + pointer-graph isolation invariant")

H_NOTE = "Trusted base: the history generator and its executable model (name -> text version, salience, description, tombstone), marker rules that reveal their text version, the simulated resource readers. Histories are sampled."
CHECKS["C08"] = ("exploration", "6.C08", "Histories of 2-6 Execute / cancelled Execute / faulted Execute / FetchMatchingRules calls on one instance; every call is compared (trace, return value, matches, final facts) with the same call on an instance created at that moment.", "Differential against the engine itself on a new instance; the Sim E wrappers and generator contract.", "deterministic simulation: seeded call histories with injected faults and cancellations, differential oracle (reused vs. new instance)")
CHECKS["C16"] = ("exploration", "6.C16", "Histories of build / remove / re-build / instantiate / store / load operations over 1-3 knowledge bases in 1-3 libraries; after every operation every knowledge base is instantiated, stored+loaded, fetched and executed on probe facts and compared with an executable model. Every eighth run index of C16 additionally executes a generated rule set in Sim E while a listener removes a rule from the instance at a cycle boundary: the rule is neither evaluated nor fired afterwards.", H_NOTE, "deterministic simulation: seeded operation histories checked step by step against an executable reference model")
CHECKS["C17"] = ("exploration", "6.C17", "The same histories mixed with valid documents in varied notation (must be accepted with all metadata), documents invalid by construction in 16 classes (must be rejected; syntactic ones with a GruleErrorReporter) and resources whose reader fails; a rejection must leave every previously loaded knowledge base instantiable, storable and behaving as before.", H_NOTE + " Acceptance exactness is decided on constructed classes only (no independent recogniser for arbitrary token mutants).", "deterministic simulation: seeded operation histories with malformed resources and failing readers, state-after-rejection checked against a reference model")

CHECKS["C20"] = ("exploration", "6.C20", "Valid GRL, JSON-rule, JSON-fact and GRB artefacts are damaged on the simulated disk (bit flips, length-field edits with boundary numbers, truncation, splices, zero-filled tails, duplicated blocks, hostile fragments, random bytes), delivered through chunking readers and loaded in a guarded child process; oracle: value-or-error, no panic, no process abort, allocation within 64 MiB + 64 KiB/byte, completion within a watchdog (confirmed alone before it is called a hang).",
 "Honest framing: this is seeded corruption of stored artefacts and their delivery, not coverage of every byte string. Trusted base: the child-process protocol, runtime.MemStats accounting, the calibrated bound.", "deterministic simulation with fault injection: seeded media corruption and reader faults, loaders run in a guarded child process")

NOT_YET = {
 "C08": "not yet claimed: history simulation (Sim H) under construction",
 "C09": "not yet claimed: concurrency simulation (Sim K) under construction",
 "C12": "not yet claimed: simulated-disk check (Sim D) under construction",
 "C16": "not yet claimed: library-history simulation (Sim H) under construction",
 "C17": "not yet claimed: library-history simulation (Sim H) under construction",
 "C20": "not yet claimed: corrupted-medium loader check (Sim D) under construction",
}
NA = {
 "C05": "pure function of expression text and facts: no schedule, clock, fault or history can change the value; deciding it is input/property testing, not simulation (DESIGN.md 6.C05)",
 "C07": "node merging is decided at build time by snapshot text equality, a pure function of the rule texts; nothing to schedule or fail (DESIGN.md 6.C07)",
 "C18": "JSON->GRL translation is a pure function of the JSON tree (DESIGN.md 6.C18)",
 "C19": "consistency of comparison tables is a pure function of two operand values (DESIGN.md 6.C19)",
}

def main():
    extra = {}
    p = os.path.join(V, "scripts", "manifest_extra.json")
    if os.path.exists(p):
        extra = json.load(open(p))
    checks = []
    table = dict(CHECKS)
    for k, v in extra.get("checks", {}).items():
        table[k] = tuple(v)
    for pid in sorted(table):
        level, ref, text, note, tech = table[pid]
        checks.append({
            "property_id": pid,
            "quick_cmd": f"scripts/check.sh {pid} quick",
            "thorough_cmd": f"scripts/check.sh {pid} thorough",
            "evidence_file": f"/verif/evidence/{pid}.json",
            "replay_cmd_template": "scripts/check.sh replay {path}",
            "engine": "grulesim",
            "level_claimed": {"category": level, "text": text, "design_ref": ref},
            "level_note": note,
            "technique": tech,
        })
    na = []
    for pid in sorted(set(NA) | set(NOT_YET)):
        if pid in table:
            continue
        na.append({"property_id": pid, "reason": NA.get(pid) or NOT_YET[pid]})
    m = {
        "version": 1,
        "setup_cmd": "scripts/setup.sh",
        "hooks": {
            "guard": "verif (Go build tag)",
            "enable": "go build -tags verif (scripts/check.sh builds the driver with the tag against /repo via a replace directive)",
            "baseline_off_cmd": "cd /repo && GOFLAGS=-mod=mod GOPROXY=off go test -vet=off -count=1 -timeout 25m ./...",
            "source_commits": hook_commits(),
            "add_only": True,
        },
        "engines": [{"name": "grulesim", "path": "/verif/cmd/grulesim", "serves_properties": sorted(table),
                     "kind_free_text": "deterministic simulator: seeded scheduler over rule-evaluation order and task interleaving, simulated clock, fault plan at existing seams, simulated disk; reference models as oracles; structured shrinking; JSON replay files"}],
        "checks": checks,
        "not_applicable": na,
        "notes": "One driver (cmd/grulesim) serves every check; scripts/check.sh rebuilds it from /repo's current tree with -tags verif on each invocation. Exit 2 means machinery or build trouble, never a violation. Known findings: /verif/known_findings.json.",
    }
    json.dump(m, open(os.path.join(V, "MANIFEST.json"), "w"), indent=1)
    print("MANIFEST.json written:", len(checks), "checks,", len(na), "not applicable")

main()
