#!/bin/sh
# scripts/selftest.sh [n] [ids...]: determinism self-test. For every check, run indices 0..n-1 are executed
# in 6 separate processes (2 repeats x GOMAXPROCS 1, 4, 16) under 2 seeds; the per-index fingerprints
# (hash of all event logs / interleavings / probe results of that index) must agree across the six.
VERIF="$(cd "$(dirname "$0")/.." && pwd)"
n="${1:-64}"; shift 2>/dev/null
ids="$*"
[ -z "$ids" ] && ids="$("$VERIF/.build/grulesim" list)"
"$VERIF/scripts/check.sh" build || exit 2
tmp="$VERIF/.build/selftest.$$"; mkdir -p "$tmp"
rc=0
for id in $ids; do
  for seed in 1 20260925; do
    i=0
    for gmp in 1 4 16 1 4 16; do
      i=$((i+1))
      VERIF_SEED=$seed GOMAXPROCS=$gmp "$VERIF/.build/grulesim" selftest det "$id" "$n" > "$tmp/$id.$seed.$i" 2>/dev/null &
    done
    wait
    for i in 2 3 4 5 6; do
      if ! cmp -s "$tmp/$id.$seed.1" "$tmp/$id.$seed.$i"; then
        echo "NONDETERMINISM property=$id seed=$seed process 1 vs $i:"; diff "$tmp/$id.$seed.1" "$tmp/$id.$seed.$i" | head -5; rc=2
      fi
    done
    lines=$(wc -l < "$tmp/$id.$seed.1")
    echo "det $id seed=$seed: 6 processes agree on $lines run indices"
  done
done
rm -rf "$tmp"
exit $rc
