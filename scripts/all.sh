#!/bin/sh
# scripts/all.sh <tier> [ids...]: run several checks one after the other, print a summary table.
VERIF="$(cd "$(dirname "$0")/.." && pwd)"
tier="${1:-quick}"; shift
ids="$*"
[ -z "$ids" ] && ids="$("$VERIF/.build/grulesim" list)"
"$VERIF/scripts/check.sh" build || exit 2
rc=0
for id in $ids; do
  out="$("$VERIF/.build/grulesim" check "$id" "$tier" 2>&1)"; c=$?
  echo "$out" | grep -E "VIOLATION|KNOWN-FINDING|^-- |^property=|^check:" | sed "s/^/[$id exit $c] /"
  [ $c -ne 0 ] && rc=$c
done
exit $rc
