#!/usr/bin/env python3
"""scripts/seed_verify.py <seed-dir> [--demo-dir=<pkgdir>] : confirm a seeded change in a scratch worktree outside /repo and /verif:
   clean tree: demo passes; with the patch: builds, the repository's suite for the touched area passes, demo fails."""
import subprocess, sys, os, json, shutil, re
ENV = dict(os.environ, GOFLAGS="-mod=mod", GOPROXY="off", GOSUMDB="off", GOTOOLCHAIN="local")
WT = "/tmp/wt/verify"
PKGS = "./ast/... ./engine/... ./builder/... ./antlr/... ./model/... ./examples/ ./pkg/jsontool/"
def sh(cmd, cwd=WT, timeout=1500):
    return subprocess.run(cmd, shell=True, cwd=cwd, env=ENV, capture_output=True, text=True, timeout=timeout)
def main():
    sd = os.path.abspath(sys.argv[1])
    opts = dict(a[2:].split("=", 1) for a in sys.argv[2:] if a.startswith("--"))
    if os.path.exists(WT):
        subprocess.run(f"git -C /repo worktree remove --force {WT}", shell=True)
    subprocess.run(f"git -C /repo worktree add -q --detach {WT} HEAD", shell=True, check=True)
    try:
        demo = open(os.path.join(sd, "demo_test.go")).read()
        m = re.search(r"^package\s+(\w+)", demo, re.M)
        pkg = m.group(1)
        ddir = opts.get("demo-dir")
        if not ddir:
            hint = re.search(r"(?:place[d]?|put|directory)[^\n]*?\b((?:seeddemo|engine|ast|builder|examples|pkg|model|antlr)[\w/]*)", demo[:1500], re.I)
            ddir = hint.group(1) if hint else "seeddemo"
            if pkg in ("engine", "ast", "builder", "model", "antlr", "pkg") and ddir == "seeddemo":
                ddir = pkg
        os.makedirs(os.path.join(WT, ddir), exist_ok=True)
        shutil.copy(os.path.join(sd, "demo_test.go"), os.path.join(WT, ddir, "zz_seed_demo_test.go"))
        run = f"go1.26.8 test -vet=off -count=1 -run 'Seed|Demo|Test' ./{ddir}/"
        if ddir != "seeddemo":
            names = re.findall(r"^func (Test\w+)\(", demo, re.M)
            run = f"go1.26.8 test -vet=off -count=1 -run '^({'|'.join(names)})$' ./{ddir}/"
        r0 = sh(run)
        clean_pass = r0.returncode == 0
        a = sh(f"git apply {sd}/patch.diff")
        if a.returncode != 0:
            print("PATCH DOES NOT APPLY", a.stderr); return 1
        b = sh("go1.26.8 build ./...")
        builds = b.returncode == 0
        r1 = sh(run)
        mut_fail = r1.returncode != 0
        os.remove(os.path.join(WT, ddir, "zz_seed_demo_test.go"))
        t = sh(f"go1.26.8 test -vet=off -count=1 {PKGS}")
        suite = t.returncode == 0
        res = dict(demo_dir=ddir, demo_passes_on_clean_tree=clean_pass, patch_builds=builds, demo_fails_with_patch=mut_fail, repository_suite_passes_with_patch=suite)
        print(json.dumps(res))
        if not clean_pass: print("CLEAN RUN OUTPUT:", r0.stdout[-1500:], r0.stderr[-500:])
        if not mut_fail: print("MUTATED RUN OUTPUT:", r1.stdout[-800:])
        if not suite: print("SUITE:", t.stdout[-1500:])
        json.dump(res, open(os.path.join(sd, "verified_by_us.json"), "w"), indent=1)
        return 0 if all(res[k] for k in res if k != "demo_dir") else 1
    finally:
        subprocess.run(f"git -C /repo worktree remove --force {WT}", shell=True)
sys.exit(main())
