#!/usr/bin/env python3
"""scripts/seed_check.py [names...] [--tier=quick] [--extra=C01,C02]: apply each kept seeded change to /repo, run the check of the
property it breaks (plus --extra), undo it straight afterwards. Results go to seeded/<name>/check_result.json."""
import subprocess, sys, os, json, time
V = os.path.dirname(os.path.dirname(os.path.abspath(__file__)))
REPO = os.environ.get("VERIF_REPO", "/repo")  # a scratch worktree for sweeps that must not touch /repo (check.sh honours it too)
def sh(cmd): return subprocess.run(cmd, shell=True, capture_output=True, text=True)
names = [a for a in sys.argv[1:] if not a.startswith("--")]
opts = dict(a[2:].split("=", 1) for a in sys.argv[1:] if a.startswith("--"))
tier = opts.get("tier", "quick")
assert sh(f"git -C {REPO} status --porcelain").stdout.strip() == "", REPO + " not clean"
for n in sorted(os.listdir(f"{V}/seeded")):
    if names and not any(n.startswith(x) for x in names): continue
    d = f"{V}/seeded/{n}"
    meta = json.load(open(f"{d}/meta.json"))
    props = [meta["property"]] + [x for x in opts.get("extra", "").split(",") if x]
    a = sh(f"git -C {REPO} apply {d}/patch.diff")
    if a.returncode != 0:
        print(n, "PATCH DOES NOT APPLY", a.stderr); continue
    res = {}
    try:
        for p in props:
            t = time.time()
            r = sh(f"{V}/scripts/check.sh {p} {tier}")
            oracles = sorted(set(l.split(":")[0][3:] for l in r.stdout.splitlines() if l.startswith("-- ")))
            res[p] = dict(exit=r.returncode, oracles=oracles, wall_s=round(time.time() - t, 1), stderr_tail=r.stderr[-300:] if r.returncode == 2 else "")
    finally:
        sh(f"git -C {REPO} checkout -- . && git -C {REPO} clean -fdq")
    json.dump(dict(tier=tier, results=res), open(f"{d}/check_result.json", "w"), indent=1)
    print(n, {p: (v["exit"], v["oracles"]) for p, v in res.items()}, flush=True)
