#!/bin/sh
# Run once after a fresh restore, offline: warm the Go build cache and build the driver.
set -u
VERIF="$(cd "$(dirname "$0")/.." && pwd)"
"$VERIF/scripts/check.sh" build || exit 2
"$VERIF/.build/grulesim" list >/dev/null || exit 2
echo "setup ok"
