#!/bin/sh
# scripts/check.sh <property> <quick|thorough>   |   scripts/check.sh replay <file>   |   scripts/check.sh build
# Rebuilds the driver against /repo's CURRENT working tree with the verif hooks on, then runs it.
# Exit: 0 held, 1 violation (VIOLATION line printed), 2 machinery/build trouble (never a violation).
set -u
VERIF="$(cd "$(dirname "$0")/.." && pwd)"
export GOFLAGS=-mod=mod GOPROXY=off GOSUMDB=off GOTOOLCHAIN=local CGO_ENABLED=0
export GOCACHE="${GOCACHE:-$VERIF/.build/gocache}"
GO=go1.26.8
command -v $GO >/dev/null 2>&1 || GO=/opt/veriftools/go1.26.8/bin/go
mkdir -p "$VERIF/.build"
# VERIF_REPO (optional, for background sweeps only): build against a snapshot of the repository instead of /repo.
# The registered commands never set it: they always rebuild from /repo's current working tree.
REPO="${VERIF_REPO:-/repo}"
MODFLAG=""
build() {
  cd "$VERIF" || exit 2
  cp "$REPO/go.sum" "$VERIF/go.sum" 2>/dev/null
  if [ "$REPO" != "/repo" ]; then
    sed "s|=> /repo|=> $REPO|" "$VERIF/go.mod" > "$VERIF/.build/alt.mod"; cp "$REPO/go.sum" "$VERIF/.build/alt.sum"
    MODFLAG="-modfile=$VERIF/.build/alt.mod"
  fi
  # serialise concurrent builds of the same binary
  ( flock 9
    $GO build $MODFLAG -tags verif -o "$VERIF/.build/grulesim.new" ./cmd/grulesim 2>"$VERIF/.build/build.log" || exit 3
    mv -f "$VERIF/.build/grulesim.new" "$VERIF/.build/grulesim"
  ) 9>"$VERIF/.build/build.lock"
  if [ $? -ne 0 ]; then
    echo "check.sh: build of the driver against /repo failed (exit 2, not a violation):" >&2
    cat "$VERIF/.build/build.log" >&2
    exit 2
  fi
}
build_race() {
  cd "$VERIF" || exit 2
  ( flock 9
    CGO_ENABLED=1 $GO build $MODFLAG -race -tags verif -o "$VERIF/.build/grulesim-race.new" ./cmd/grulesim 2>"$VERIF/.build/build-race.log" || exit 3
    mv -f "$VERIF/.build/grulesim-race.new" "$VERIF/.build/grulesim-race"
  ) 9>"$VERIF/.build/build.lock"
  if [ $? -ne 0 ]; then
    echo "check.sh: build of the -race binary failed (exit 2, not a violation):" >&2
    cat "$VERIF/.build/build-race.log" >&2
    exit 2
  fi
}
case "${1:-}" in
  build) build; exit 0 ;;
  replay)
    build
    if grep -q '"sim": "K-race-arm"' "$2" 2>/dev/null; then
      build_race; exec "$VERIF/.build/grulesim-race" racearm-replay "$2"
    fi
    exec "$VERIF/.build/grulesim" replay "$2" ;;
  C09)
    build
    "$VERIF/.build/grulesim" check C09 "${2:-quick}"; rc=$?
    if [ $rc -ne 2 ]; then
      # auxiliary arm, clearly not simulation: real goroutines under the race detector
      # (2 000 scenarios in the quick tier, 20 000 in the thorough tier)
      n=2000; [ "${2:-quick}" = "thorough" ] && n=20000
      build_race
      "$VERIF/.build/grulesim-race" racearm "${VERIF_RACE_SCENARIOS:-$n}"; rc2=$?
      [ $rc2 -gt $rc ] && rc=$rc2
    fi
    exit $rc ;;
  "") echo "usage: check.sh <property> <quick|thorough> | replay <file> | build" >&2; exit 2 ;;
  *) build; exec "$VERIF/.build/grulesim" check "$1" "${2:-quick}" ;;
esac
