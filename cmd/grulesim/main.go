// grulesim is the driver of the deterministic-simulation checks.
//
//	grulesim check <property> <quick|thorough>     run a check (spawns worker processes)
//	grulesim worker <property> <tier> <seed> <shard> <nshards> <outfile>
//	grulesim replay <file>                         re-execute a replay file in this process
//	grulesim selftest det <property> <n>           determinism self-test helper (prints fingerprints)
//	grulesim list
package main

import (
	"encoding/json"
	"io"
	"fmt"
	"os"
	"os/exec"
	"path/filepath"
	"runtime"
	"runtime/debug"
	"runtime/pprof"
	"sort"
	"strconv"
	"strings"
	"sync"
	"time"

	"github.com/sirupsen/logrus"

	"grulesim/sim/checks"
	"grulesim/sim/core"
	"grulesim/sim/dsim"
)

const defaultSeed = 20260925

func verifDir() string {
	if d := os.Getenv("VERIF_DIR"); d != "" {
		return d
	}
	exe, err := os.Executable()
	if err == nil {
		// <verif>/.build/grulesim
		return filepath.Dir(filepath.Dir(exe))
	}
	return "."
}

func seedFromEnv() uint64 {
	if s := os.Getenv("VERIF_SEED"); s != "" {
		if v, err := strconv.ParseInt(s, 10, 64); err == nil {
			return uint64(v)
		}
		if v, err := strconv.ParseUint(s, 10, 64); err == nil {
			return v
		}
	}
	return defaultSeed
}

func main() {
	// ast/Serializer.go logs through the global logrus logger; keep it off the terminal
	logrus.SetOutput(io.Discard)
	if len(os.Args) < 2 {
		fmt.Fprintln(os.Stderr, "usage: grulesim check|worker|replay|selftest|list ...")
		os.Exit(2)
	}
	switch os.Args[1] {
	case "list":
		for _, id := range checks.IDs() {
			fmt.Println(id)
		}
	case "check":
		if len(os.Args) < 4 {
			fmt.Fprintln(os.Stderr, "usage: grulesim check <property> <quick|thorough>")
			os.Exit(2)
		}
		os.Exit(cmdCheck(os.Args[2], os.Args[3]))
	case "worker":
		code := cmdWorker(os.Args[2:])
		checks.CloseC20()
		os.Exit(code)
	case "c20child":
		os.Exit(dsim.ChildMain())
	case "racearm":
		os.Exit(cmdRaceArm(os.Args[2:]))
	case "racearm-worker":
		os.Exit(cmdRaceArmWorker(os.Args[2:]))
	case "racearm-replay":
		os.Exit(cmdRaceArmReplay(os.Args[2]))
	case "replay":
		os.Exit(cmdReplay(os.Args[2]))
	case "selftest":
		os.Exit(cmdSelftest(os.Args[2:]))
	default:
		fmt.Fprintln(os.Stderr, "unknown command", os.Args[1])
		os.Exit(2)
	}
}

func cmdWorker(a []string) int {
	if len(a) < 6 {
		fmt.Fprintln(os.Stderr, "worker: bad arguments")
		return 2
	}
	c := checks.Get(a[0])
	if c == nil {
		fmt.Fprintln(os.Stderr, "worker: unknown property", a[0])
		return 2
	}
	// a worker that runs away in memory must die alone (exit 2), not take the machine with it.
	// (RLIMIT_AS makes the Go runtime crawl, so a watchdog on the heap size is used instead.)
	go func() {
		for {
			time.Sleep(300 * time.Millisecond)
			var ms runtime.MemStats
			runtime.ReadMemStats(&ms)
			if ms.HeapAlloc > 5<<30 {
				fmt.Fprintf(os.Stderr, "worker: heap grew to %d MiB, giving up (machinery trouble, exit 2)\n", ms.HeapAlloc>>20)
				os.Exit(2)
			}
		}
	}()
	debug.SetGCPercent(800)
	if pf := os.Getenv("VERIF_CPUPROFILE"); pf != "" {
		f, err := os.Create(pf)
		if err == nil {
			_ = pprof.StartCPUProfile(f)
			defer pprof.StopCPUProfile()
		}
	}
	tier := a[1]
	seed, _ := strconv.ParseUint(a[2], 10, 64)
	shard, _ := strconv.Atoi(a[3])
	nshards, _ := strconv.Atoi(a[4])
	out := a[5]
	n := c.Runs[tier]
	if v := os.Getenv("VERIF_RUNS"); v != "" {
		if k, err := strconv.Atoi(v); err == nil {
			n = k
		}
	}
	st := core.NewStats()
	deadline := time.Time{}
	if v := os.Getenv("VERIF_WALL_S"); v != "" {
		if k, err := strconv.Atoi(v); err == nil {
			deadline = time.Now().Add(time.Duration(k) * time.Second)
		}
	}
	done := 0
	for i := shard; i < n; i += nshards {
		c.Run(c, seed, i, tier, st)
		done++
		if !deadline.IsZero() && time.Now().After(deadline) {
			st.Probes["worker.stopped-by-wall-clock-budget"]++
			break
		}
	}
	st.Probes["worker.run-indices"] += int64(done)
	st.Seal()
	b, err := json.Marshal(st)
	if err != nil {
		fmt.Fprintln(os.Stderr, "worker:", err)
		return 2
	}
	if err := os.WriteFile(out, b, 0o644); err != nil {
		fmt.Fprintln(os.Stderr, "worker:", err)
		return 2
	}
	return 0
}

func cmdReplay(path string) int {
	sc, err := core.ReadReplay(path)
	if err != nil {
		fmt.Fprintln(os.Stderr, "replay:", err)
		return 2
	}
	c := checks.Get(sc.Property)
	if c == nil {
		fmt.Fprintln(os.Stderr, "replay: unknown property", sc.Property)
		return 2
	}
	if h := sc.History; h != nil {
		// re-run the recorded range of run indices; the verdict is what the LAST index reports
		want := ""
		if sc.Violation != nil {
			want = sc.Violation.Oracle
		}
		if h.Step <= 0 || h.From > h.Upto {
			fmt.Fprintln(os.Stderr, "replay: bad history range")
			return 2
		}
		debug.SetGCPercent(800)
		st := core.NewStats()
		for i := h.From; i <= h.Upto; i += h.Step {
			c.Run(c, h.Seed, i, h.Tier, st)
		}
		for _, f := range st.Found {
			if f.Original == h.Upto && (want == "" || f.V.Oracle == want) {
				fmt.Printf("REPLAY-VIOLATION property=%s oracle=%s (run index %d after run indices %d..%d step %d in one process)\n%s\n", f.V.Property, f.V.Oracle, h.Upto, h.From, h.Upto, h.Step, f.V.Message)
				fmt.Printf("VIOLATION property=%s replay=%s\n", sc.Property, path)
				return 1
			}
		}
		fmt.Printf("REPLAY-CLEAN property=%s (expected oracle %q at run index %d)\n", sc.Property, want, h.Upto)
		return 0
	}
	vs := c.Replay(c, sc)
	for r := 1; r < sc.Repeat; r++ {
		vs = c.Replay(c, sc)
	}
	want := ""
	if sc.Violation != nil {
		want = sc.Violation.Oracle
	}
	code := 0
	for _, v := range vs {
		if v.Property == "HARNESS" {
			fmt.Printf("REPLAY-HARNESS-ERROR %s\n", v.Message)
			return 2
		}
		fmt.Printf("REPLAY-VIOLATION property=%s oracle=%s\n%s\n", v.Property, v.Oracle, v.Message)
		if want == "" || v.Oracle == want {
			code = 1
		}
	}
	if code == 0 {
		fmt.Printf("REPLAY-CLEAN property=%s (expected oracle %q)\n", sc.Property, want)
	} else {
		fmt.Printf("VIOLATION property=%s replay=%s\n", sc.Property, path)
	}
	return code
}

func cmdSelftest(a []string) int {
	// selftest det <property> <n>: run indices 0..n-1 in this process, print one fingerprint line per index
	if len(a) < 3 || a[0] != "det" {
		fmt.Fprintln(os.Stderr, "usage: selftest det <property> <n>")
		return 2
	}
	c := checks.Get(a[1])
	if c == nil {
		return 2
	}
	n, _ := strconv.Atoi(a[2])
	seed := seedFromEnv()
	for i := 0; i < n; i++ {
		st := core.NewStats()
		c.Run(c, seed, i, "quick", st)
		st.Seal()
		h := uint64(0)
		for _, f := range st.Distinct {
			h = core.Mix(h, f)
		}
		for _, f := range st.NonTrivial {
			h = core.Mix(h, f)
		}
		fmt.Printf("%s %d %d %016x %d\n", a[1], i, st.Evaluations, h, st.Events)
	}
	return 0
}

func cmdCheck(prop, tier string) int {
	start := time.Now()
	c := checks.Get(prop)
	if c == nil {
		fmt.Fprintln(os.Stderr, "check: unknown property", prop)
		return 2
	}
	if tier != "quick" && tier != "thorough" {
		fmt.Fprintln(os.Stderr, "check: tier must be quick or thorough")
		return 2
	}
	vd := verifDir()
	seed := seedFromEnv()
	fmt.Printf("grulesim check property=%s tier=%s VERIF_SEED=%d\n", prop, tier, int64(seed))
	nw := runtime.NumCPU()
	if v := os.Getenv("VERIF_WORKERS"); v != "" {
		if k, err := strconv.Atoi(v); err == nil && k > 0 {
			nw = k
		}
	}
	tmp, err := os.MkdirTemp(filepath.Join(vd, ".build"), "run-"+prop+"-")
	if err != nil {
		fmt.Fprintln(os.Stderr, "check:", err)
		return 2
	}
	defer os.RemoveAll(tmp)
	exe, _ := os.Executable()
	var wg sync.WaitGroup
	errs := make([]error, nw)
	outs := make([]string, nw)
	for w := 0; w < nw; w++ {
		wg.Add(1)
		go func(w int) {
			defer wg.Done()
			out := filepath.Join(tmp, fmt.Sprintf("w%d.json", w))
			outs[w] = out
			cmd := exec.Command(exe, "worker", prop, tier, strconv.FormatUint(seed, 10), strconv.Itoa(w), strconv.Itoa(nw), out)
			cmd.Env = append(os.Environ(), "GOMAXPROCS=2")
			cmd.Stderr = os.Stderr
			cmd.Stdout = os.Stderr
			if err := cmd.Start(); err != nil {
				errs[w] = err
				return
			}
			// watchdog: a worker that makes no progress is machinery trouble (exit 2), never a verdict
			limit := 20 * time.Minute
			if tier == "thorough" {
				limit = 6 * time.Hour
			}
			timer := time.AfterFunc(limit, func() {
				fmt.Fprintf(os.Stderr, "check: worker %d exceeded the watchdog of %v, killing it\n", w, limit)
				_ = cmd.Process.Kill()
			})
			errs[w] = cmd.Wait()
			timer.Stop()
		}(w)
	}
	wg.Wait()
	total := core.NewStats()
	for w := 0; w < nw; w++ {
		if errs[w] != nil {
			fmt.Fprintf(os.Stderr, "check: worker %d failed: %v\n", w, errs[w])
			return 2
		}
		b, err := os.ReadFile(outs[w])
		if err != nil {
			fmt.Fprintln(os.Stderr, "check:", err)
			return 2
		}
		var st core.Stats
		if err := json.Unmarshal(b, &st); err != nil {
			fmt.Fprintln(os.Stderr, "check:", err)
			return 2
		}
		total.Merge(&st)
	}
	total.Seal()
	if len(total.Harness) > 0 {
		fmt.Fprintf(os.Stderr, "check: %d harness error(s), first: %s\n", len(total.Harness), total.Harness[0])
		return 2
	}
	known, err := core.LoadKnown(filepath.Join(vd, "known_findings.json"))
	if err != nil {
		fmt.Fprintln(os.Stderr, "check: known findings:", err)
		return 2
	}
	// one report per oracle: keep the smallest scenario
	sort.SliceStable(total.Found, func(i, j int) bool {
		a, _ := json.Marshal(total.Found[i].Scenario)
		b, _ := json.Marshal(total.Found[j].Scenario)
		return len(a) < len(b)
	})
	replayDir := filepath.Join(vd, "replays")
	seenKnown := map[string]bool{}
	seenOracle := map[string]bool{}
	nViol := 0
	attempts := map[string]int{}
	notReproduced := map[string]string{}
	var lines []string
	for i := range total.Found {
		f := &total.Found[i]
		if kf := known.Match(f); kf != nil {
			if !seenKnown[kf.ID] {
				seenKnown[kf.ID] = true
				lines = append(lines, fmt.Sprintf("KNOWN-FINDING: property=%s %s [%s, oracle %s]", f.V.Property, kf.What, kf.ID, f.V.Oracle))
			}
			continue
		}
		if seenOracle[f.V.Oracle] || attempts[f.V.Oracle] >= 6 {
			continue
		}
		attempts[f.V.Oracle]++
		// confirm by replaying in a fresh process; when that is clean, replay the same scenario two and
		// three times in one fresh process (state the code under test keeps process-wide leaks from run
		// to run: the worker saw it because earlier runs had happened in its process)
		var path string
		confirmed := false
		var lastOut []byte
		lastCode := 0
		for _, rep := range []int{0, 2, 3} {
			f.Scenario.Repeat = rep
			p, err := core.WriteReplay(replayDir, f.Scenario)
			if err != nil {
				fmt.Fprintln(os.Stderr, "check:", err)
				return 2
			}
			cmd := exec.Command(exe, "replay", p)
			out, rerr := cmd.CombinedOutput()
			code := 0
			if ee, ok := rerr.(*exec.ExitError); ok {
				code = ee.ExitCode()
			} else if rerr != nil {
				code = 2
			}
			lastOut, lastCode = out, code
			if code == 1 {
				path, confirmed = p, true
				break
			}
			_ = os.Remove(p)
		}
		if !confirmed && attempts[f.V.Oracle] <= 2 {
			// last resort: the violation needs what earlier runs of the worker left behind in process-wide
			// state of the code under test. Re-run the worker's run indices that preceded it, shortest
			// suffix first (1, 2, 4, ... preceding runs), each attempt in a fresh process.
			f.Scenario.Repeat = 0
			for span := 0; !confirmed; {
				from := f.Original - span*nw
				if from < 0 {
					from = f.Original % nw
				}
				f.Scenario.History = &core.HistoryReplay{Tier: tier, Seed: seed, From: from, Step: nw, Upto: f.Original}
				p, err := core.WriteReplay(replayDir, f.Scenario)
				if err != nil {
					fmt.Fprintln(os.Stderr, "check:", err)
					return 2
				}
				out, rerr := exec.Command(exe, "replay", p).CombinedOutput()
				if ee, ok := rerr.(*exec.ExitError); ok && ee.ExitCode() == 1 {
					path, confirmed = p, true
					break
				}
				lastOut = out
				_ = os.Remove(p)
				if from == f.Original%nw {
					break
				}
				if span == 0 {
					span = 1
				} else {
					span *= 2
				}
			}
			if !confirmed {
				f.Scenario.History = nil
			}
		}
		if !confirmed {
			notReproduced[f.V.Oracle] = fmt.Sprintf("check: violation %s did not reproduce in a fresh process (exit %d):\n%s\n", f.V.Oracle, lastCode, lastOut)
			continue
		}
		delete(notReproduced, f.V.Oracle)
		seenOracle[f.V.Oracle] = true
		if h := f.Scenario.History; h != nil {
			if h.From == h.Upto {
				lines = append(lines, fmt.Sprintf("-- %s: the minimised scenario does not fail on its own; run index %d as generated (several evaluations in one process) does: the code under test keeps state between runs", f.V.Oracle, h.Upto))
			} else {
				lines = append(lines, fmt.Sprintf("-- %s appears at run index %d only after run indices %d..%d (step %d) have run in the same process: the code under test keeps state between runs", f.V.Oracle, h.Upto, h.From, h.Upto-h.Step, h.Step))
			}
		}
		if f.Scenario.Repeat > 1 {
			lines = append(lines, fmt.Sprintf("-- %s appears only in run %d of the same scenario in one process: the code under test keeps state between runs", f.V.Oracle, f.Scenario.Repeat))
		}
		nViol++
		lines = append(lines, fmt.Sprintf("-- %s: %s", f.V.Oracle, firstLine(f.V.Message)))
		lines = append(lines, fmt.Sprintf("VIOLATION property=%s replay=%s", f.V.Property, path))
	}
	// reach probes
	var missing []string
	for _, p := range c.RequiredProbes {
		if total.Probes[p] == 0 {
			missing = append(missing, p)
		}
	}
	wall := time.Since(start).Seconds()
	// the assignment matrix of Sim E is reported on its own (and only for C04, whose reach measure it is)
	cells := map[string]int64{}
	for k, v := range total.Probes {
		if strings.HasPrefix(k, "assign-cell.") {
			cells[strings.TrimPrefix(k, "assign-cell.")] = v
			delete(total.Probes, k)
		}
	}
	cov := map[string]interface{}{
		"evaluations":         total.Evaluations,
		"distinct_nontrivial": len(total.NonTrivial),
		"rule":                c.Rule,
		"samples":             total.Samples,
		"distinct_schedules_or_interleavings": len(total.Distinct),
		"run_indices":         total.Probes["worker.run-indices"],
		"seam_events":         total.Events,
		"simulated_seconds":   float64(total.SimNs) / 1e9,
		"runs_per_hour":       float64(total.Evaluations) / wall * 3600,
		"fault_kinds_fired":   total.Faults,
		"ways_of_ending":      total.Ends,
		"probes":              total.Probes,
		"real_vs_stub":        c.RealVsStub,
		"workers":             nw,
		"shrink_candidates":   total.Shrunk,
		"exhaustive":          false,
		"known_findings_hit":  keysOf(seenKnown),
	}
	if prop == "C04" {
		cov["assignment_matrix"] = map[string]interface{}{"what": "cells (path shape . destination Go type . source type . form) exercised by applied assignments", "distinct_cells": len(cells), "cells": cells}
	}
	if c.ExhaustNote != "" {
		cov["enumeration_note"] = c.ExhaustNote
	}
	if len(total.Samples) == 0 {
		cov["samples"] = []interface{}{"no non-trivial run in this batch"}
	}
	ev := &core.Evidence{PropertyID: prop, Tier: tier, Seed: int64(seed), Level: c.Level, Coverage: cov,
		Assumptions: c.Assumptions, WallS: wall, Violations: nViol}
	if err := core.WriteEvidence(filepath.Join(vd, "evidence"), ev); err != nil {
		fmt.Fprintln(os.Stderr, "check:", err)
		return 2
	}
	for _, l := range lines {
		fmt.Println(l)
	}
	fmt.Printf("property=%s tier=%s evaluations=%d distinct_nontrivial=%d violations=%d known=%d wall=%.1fs\n",
		prop, tier, total.Evaluations, len(total.NonTrivial), nViol, len(seenKnown), wall)
	if nViol > 0 {
		return 1
	}
	if len(total.NonTrivial) < 2 {
		fmt.Fprintln(os.Stderr, "check: fewer than 2 distinct non-trivial cases in this batch (budget too small?): the evidence would say nothing, exit 2")
		return 2
	}
	for _, m := range notReproduced {
		fmt.Fprint(os.Stderr, m)
	}
	if len(notReproduced) > 0 {
		fmt.Fprintln(os.Stderr, "check: violations found that do not replay: machinery defect")
		return 2
	}
	if len(missing) > 0 {
		fmt.Fprintf(os.Stderr, "check: reach probes at zero over the whole batch (generator broken?): %v\n", missing)
		return 2
	}
	return 0
}

func firstLine(s string) string {
	if i := strings.IndexByte(s, '\n'); i >= 0 {
		return s[:i]
	}
	return s
}

func keysOf(m map[string]bool) []string {
	out := []string{}
	for k := range m {
		out = append(out, k)
	}
	sort.Strings(out)
	return out
}


// ---------------------------------------------------------------------------------------------
// Auxiliary -race arm of C09 (thorough tier; this code only makes sense in a binary built with -race)

func cmdRaceArmWorker(a []string) int {
	seed, _ := strconv.ParseUint(a[0], 10, 64)
	shard, _ := strconv.Atoi(a[1])
	nshards, _ := strconv.Atoi(a[2])
	n, _ := strconv.Atoi(a[3])
	return checks.RaceArmWorker(seed, shard, nshards, n)
}

func cmdRaceArm(a []string) int {
	n := 2000
	if len(a) > 0 {
		n, _ = strconv.Atoi(a[0])
	}
	start := time.Now()
	vd := verifDir()
	seed := seedFromEnv()
	exe, _ := os.Executable()
	nw := runtime.NumCPU() / 2
	if nw < 1 {
		nw = 1
	}
	type outcome struct {
		code   int
		stderr string
	}
	outs := make([]outcome, nw)
	var wg sync.WaitGroup
	for w := 0; w < nw; w++ {
		wg.Add(1)
		go func(w int) {
			defer wg.Done()
			cmd := exec.Command(exe, "racearm-worker", strconv.FormatUint(seed, 10), strconv.Itoa(w), strconv.Itoa(nw), strconv.Itoa(n))
			cmd.Env = append(os.Environ(), "GORACE=halt_on_error=1 exitcode=66", "GOMAXPROCS="+[]string{"1", "4", "16"}[w%3])
			b, err := cmd.CombinedOutput()
			code := 0
			if ee, ok := err.(*exec.ExitError); ok {
				code = ee.ExitCode()
			} else if err != nil {
				code = 2
			}
			outs[w] = outcome{code, string(b)}
		}(w)
	}
	wg.Wait()
	viol := 0
	for w, o := range outs {
		if o.code == 0 {
			continue
		}
		isRace := o.code == 66 || strings.Contains(o.stderr, "WARNING: DATA RACE") || strings.Contains(o.stderr, "fatal error: concurrent map")
		if !isRace {
			fmt.Fprintf(os.Stderr, "racearm: worker %d failed (exit %d): %s\n", w, o.code, tailOf(o.stderr, 600))
			return 2
		}
		idx := -1
		for _, l := range strings.Split(o.stderr, "\n") {
			if strings.HasPrefix(l, "RACEARM-BEGIN ") {
				idx, _ = strconv.Atoi(strings.TrimPrefix(l, "RACEARM-BEGIN "))
			}
		}
		if idx < 0 {
			return 2
		}
		var sc map[string]interface{}
		_ = json.Unmarshal(checks.RaceArmScenarioJSON(seed, idx), &sc)
		rep := o.stderr
		if i := strings.Index(rep, "WARNING: DATA RACE"); i >= 0 {
			rep = rep[i:]
		}
		if len(rep) > 6000 {
			rep = rep[:6000] // the two stacks are at the top of the report
		}
		sc["violation"] = map[string]interface{}{"oracle": "C09.data-race", "property": "C09", "message": "the Go race detector reported a data race (or the runtime a concurrent map access) while goroutines created and executed instances of one library", "log_tail": strings.Split(tailOf(rep, 6000), "\n")}
		b, _ := json.MarshalIndent(sc, "", " ")
		dir := filepath.Join(vd, "replays", "C09")
		_ = os.MkdirAll(dir, 0o755)
		path := filepath.Join(dir, fmt.Sprintf("race-%d-%d.json", seed, idx))
		_ = os.WriteFile(path, b, 0o644)
		fmt.Printf("-- C09.data-race: race detector report while running scenario %d on real goroutines\n", idx)
		fmt.Printf("VIOLATION property=C09 replay=%s\n", path)
		viol++
	}
	// record the arm in the evidence file written by the simulation check
	evp := filepath.Join(vd, "evidence", "C09.json")
	if b, err := os.ReadFile(evp); err == nil {
		var ev map[string]interface{}
		if json.Unmarshal(b, &ev) == nil {
			if cov, ok := ev["coverage"].(map[string]interface{}); ok {
				cov["auxiliary_race_arm"] = map[string]interface{}{"what": "NOT simulation: the same task scripts on real goroutines in a -race binary; only race-detector reports or concurrent-map fatals count", "scenarios": n, "repeats_per_scenario": 3, "worker_processes": nw, "gomaxprocs": "1, 4 and 16 (by worker)", "race_reports": viol, "wall_s": time.Since(start).Seconds()}
				if viol > 0 {
					if v, ok := ev["violations"].(float64); ok {
						ev["violations"] = int(v) + viol
					}
				}
				if nb, err := json.MarshalIndent(ev, "", " "); err == nil {
					_ = os.WriteFile(evp, nb, 0o644)
				}
			}
		}
	}
	fmt.Printf("race arm: scenarios=%d reports=%d wall=%.1fs\n", n, viol, time.Since(start).Seconds())
	if viol > 0 {
		return 1
	}
	return 0
}

func cmdRaceArmReplay(path string) int {
	sc, err := core.ReadReplay(path)
	if err != nil {
		return 2
	}
	if os.Getenv("GORACE") == "" {
		// re-exec with the race detector told to stop at the first report
		exe, _ := os.Executable()
		cmd := exec.Command(exe, "racearm-replay", path)
		cmd.Env = append(os.Environ(), "GORACE=halt_on_error=1 exitcode=66", "GOMAXPROCS=4")
		b, err := cmd.CombinedOutput()
		if ee, ok := err.(*exec.ExitError); ok && (ee.ExitCode() == 66 || strings.Contains(string(b), "fatal error: concurrent map")) {
			fmt.Println(tailOf(string(b), 3000))
			fmt.Printf("VIOLATION property=C09 replay=%s\n", path)
			return 1
		}
		if err != nil {
			fmt.Println(tailOf(string(b), 1000))
			return 2
		}
		fmt.Println("REPLAY-CLEAN property=C09 (race arm: no report in 200 repetitions)")
		return 0
	}
	if err := checks.RaceScenario(sc, 200); err != nil {
		return 2
	}
	return 0
}

func tailOf(s string, n int) string {
	if len(s) > n {
		return s[len(s)-n:]
	}
	return s
}
