// probe-jsonchain reproduces the gap recorded in DESIGN.md section 10 ("chains of selectors on JSON facts")
// against the real engine. It is a probe, not a check: it is not registered in MANIFEST.json, it always exits 0
// unless the engine cannot be driven at all (exit 2), and it never prints a VIOLATION line.
//
//	cd /verif && GOFLAGS=-mod=mod GOPROXY=off GOSUMDB=off GOTOOLCHAIN=local go1.26.8 run ./cmd/probe-jsonchain
//
// For each case a rule reads a JSON member in one notation and writes it in another. With memoization kept
// consistent (property C01) the rule fires until its condition is false on the live value and the run ends
// normally; with a stale remembered value it keeps firing until the cycle cap.
package main

import (
	"fmt"
	"os"

	"github.com/hyperjumptech/grule-rule-engine/ast"
	"github.com/hyperjumptech/grule-rule-engine/builder"
	"github.com/hyperjumptech/grule-rule-engine/engine"
	"github.com/hyperjumptech/grule-rule-engine/pkg"
)

type probe struct {
	name string
	json string
	grl  string
}

var probes = []probe{
	// one level: covered by the repair of D14, expected to terminate
	{"member-read/selector-write, one level", `{"n":0}`,
		`rule R { when J.n < 4 then J["n"] = J["n"] + 1; }`},
	{"selector-read/member-write, one level", `{"n":0}`,
		`rule R { when J["n"] < 4 then J.n = J.n + 1; }`},
	// chains: the recorded gap
	{"member-read/chain-write, object in object", `{"o":{"k":0}}`,
		`rule R { when J.o.k < 4 then J["o"]["k"] = J["o"]["k"] + 1; }`},
	{"chain-read/member-write, object in object", `{"o":{"k":0}}`,
		`rule R { when J["o"]["k"] < 4 then J.o.k = J.o.k + 1; }`},
	{"member-read/chain-write, array in object", `{"a":[0,0]}`,
		`rule R { when J.a[0] < 4 then J["a"][0] = J["a"][0] + 1; }`},
	{"chain-read/chain-write, same notation (control)", `{"o":{"k":0}}`,
		`rule R { when J["o"]["k"] < 4 then J["o"]["k"] = J["o"]["k"] + 1; }`},
}

func run(p probe) (string, error) {
	lib := ast.NewKnowledgeLibrary()
	rb := builder.NewRuleBuilder(lib)
	if err := rb.BuildRuleFromResource("P", "1", pkg.NewBytesResource([]byte(p.grl))); err != nil {
		return "", fmt.Errorf("build: %w", err)
	}
	kb, err := lib.NewKnowledgeBaseInstance("P", "1")
	if err != nil {
		return "", fmt.Errorf("instance: %w", err)
	}
	dctx := ast.NewDataContext()
	if err := dctx.AddJSON("J", []byte(p.json)); err != nil {
		return "", fmt.Errorf("fact: %w", err)
	}
	eng := engine.NewGruleEngine()
	eng.MaxCycle = 50
	err = eng.Execute(dctx, kb)
	if err == nil {
		return "terminates (remembered values follow the write)", nil
	}
	msg := err.Error()
	if len(msg) > 72 {
		msg = msg[:72] + "..."
	}
	return "STALE: " + msg, nil
}

func main() {
	stale := 0
	for _, p := range probes {
		res, err := run(p)
		if err != nil {
			fmt.Printf("%-52s cannot run: %v\n", p.name, err)
			os.Exit(2)
		}
		if len(res) >= 5 && res[:5] == "STALE" {
			stale++
		}
		fmt.Printf("%-52s %s\n   %s  on %s\n", p.name, res, p.grl, p.json)
	}
	if stale > 0 {
		fmt.Printf("GAP-REPRODUCED: %d of %d notations keep a stale remembered value\n", stale, len(probes))
	} else {
		fmt.Printf("GAP-CLOSED: every notation follows the write\n")
	}
}
